"""developer self-check: on the unchanged tree no proof hint and no anchor may be lost — a hint that is ALWAYS lost silently turns
every failure of its function into UNDECIDED (lost-hint policy)"""
import os, sys
HERE = os.path.dirname(os.path.abspath(__file__))
sys.path.insert(0, HERE)
from splice import splice
bad = 0
for u in sorted(os.listdir(os.path.join(HERE, "..", "units"))):
    t, fns, _ = splice(os.path.join(HERE, "..", "units", u, "unit.rs.tmpl"), os.environ.get("VERIF_REPO", "/repo"))
    for f in fns:
        if getattr(f, "lost_hints", None):
            print(f"LOST HINT {u}::{f.name}: {f.lost_hints[0]}"); bad += 1
        if getattr(f, "lost", None):
            print(f"LOST ANCHOR {u}::{f.name}: {f.lost}"); bad += 1
print("lost hints / anchors on this tree:", bad)
sys.exit(1 if bad else 0)
