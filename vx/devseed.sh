#!/bin/sh
# developer aid: apply one seeded change to a scratch copy and run its property's quick check there, keeping the generated unit in /tmp/mutbuild
s="$1"; prop="${2:-$(python3 -c "import json;print(json.load(open('/verif/seeded/$s/meta.json'))['breaks_property'])")}"
rm -rf /tmp/mut /tmp/mutbuild /tmp/mutev; rsync -a --exclude target --exclude .git /repo/ /tmp/mut/
( cd /tmp/mut && patch -p1 -s < /verif/seeded/$s/patch.diff )
VERIF_REPO=/tmp/mut VERIF_BUILD=/tmp/mutbuild VERIF_EVIDENCE_DIR=/tmp/mutev /verif/check "$prop" --no-kani 2>&1 | grep -v "^KNOWN-FINDING"
