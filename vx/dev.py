#!/usr/bin/env python3
"""developer helper: splice one unit and show verus' human-readable output (not used by checks)"""
import os, subprocess, sys
HERE = os.path.dirname(os.path.abspath(__file__))
sys.path.insert(0, HERE)
from splice import splice
unit = sys.argv[1]
repo = os.environ.get("VERIF_REPO", "/repo")
canary = "--canary" in sys.argv
t, fns, _ = splice(os.path.join(HERE, "..", "units", unit, "unit.rs.tmpl"), repo, canary=canary)
out = os.path.join(HERE, "..", "build", unit + ("_canary" if canary else "") + ".rs")
open(out, "w").write(t)
extra = [a for a in sys.argv[2:] if a != "--canary"]
p = subprocess.run(["verus", out, "--multiple-errors", "30", "--triggers-mode", "silent"] + extra, capture_output=True, text=True)
for f in fns:
    if getattr(f, "lost", None):
        print("QUARANTINED:", f.name, "-", f.lost)
print(p.stdout[-3000:])
print(p.stderr[-12000:])
