#!/usr/bin/env python3
"""run every seeded change under /verif/seeded against the quick check of the property it breaks; writes seeded/RESULTS.json/.md.
Each run uses its own scratch copy of /repo (VERIF_REPO) with the patch applied, and its own build and evidence directories,
so /repo and /verif/evidence are never touched and runs go in parallel."""
import concurrent.futures, json, os, shutil, subprocess, sys, tempfile
V = os.path.dirname(os.path.dirname(os.path.abspath(__file__)))
only = sys.argv[1:]

def one(sid):
    d = os.path.join(V, "seeded", sid)
    meta = json.load(open(os.path.join(d, "meta.json")))
    prop = meta["breaks_property"]
    tmp = tempfile.mkdtemp(prefix="seedrun_")
    try:
        repo = os.path.join(tmp, "repo")
        subprocess.run(["rsync", "-a", "--exclude", "target", "--exclude", ".git", "/repo/", repo + "/"], check=True)
        ap = subprocess.run(["patch", "-p1", "-s", "-i", os.path.join(d, "patch.diff")], cwd=repo, capture_output=True, text=True)
        if ap.returncode != 0:
            return {"seed": sid, "property": prop, "result": "patch does not apply", "detail": (ap.stdout + ap.stderr)[:200]}
        env = dict(os.environ, VERIF_REPO=repo, VERIF_BUILD=os.path.join(tmp, "build"), VERIF_EVIDENCE_DIR=os.path.join(tmp, "evidence"))
        p = subprocess.run([os.path.join(V, "check"), prop, "--no-kani"], capture_output=True, text=True, cwd=V, env=env)
    finally:
        shutil.rmtree(tmp, ignore_errors=True)
    lines = [l for l in p.stdout.split("\n") if l and not l.startswith("KNOWN-FINDING")]
    res = {0: "MISSED (check passes)", 1: "DETECTED", 2: "UNDECIDED"}.get(p.returncode, str(p.returncode))
    detail = ""
    for l in lines:
        if l.strip().startswith("failed obligation") or l.startswith("UNDECIDED"):
            detail = l.strip()[:220]
            break
    return {"seed": sid, "property": prop, "result": res, "detail": detail, "summary": (meta.get("summary") or "")[:200]}

sids = [s for s in sorted(os.listdir(os.path.join(V, "seeded"))) if os.path.isdir(os.path.join(V, "seeded", s)) and (not only or s in only or s.split("-")[0] in only)]
rows = []
with concurrent.futures.ThreadPoolExecutor(max_workers=5) as ex:
    for r in ex.map(one, sids):
        rows.append(r)
        print(r["seed"], r["result"], r.get("detail", "")[:120], flush=True)
if only:
    # partial run: merge into the existing table
    old = json.load(open(os.path.join(V, "seeded", "RESULTS.json")))
    done = {r["seed"] for r in rows}
    rows = sorted([r for r in old if r["seed"] not in done] + rows, key=lambda r: r["seed"])
json.dump(rows, open(os.path.join(V, "seeded", "RESULTS.json"), "w"), indent=1)
with open(os.path.join(V, "seeded", "RESULTS.md"), "w") as f:
    f.write("| seed | property | result of `./check <prop>` with the change applied | first failed obligation / reason |\n|---|---|---|---|\n")
    for r in rows:
        f.write(f"| {r['seed']} | {r['property']} | {r['result']} | {r.get('detail','').replace('|','/')} |\n")
    n = len(rows); d = sum(r['result'] == 'DETECTED' for r in rows); u = sum(r['result'] == 'UNDECIDED' for r in rows)
    f.write(f"\n{d} of {n} detected, {u} undecided, {n-d-u} missed.\n")
