#!/usr/bin/env python3
"""run every seeded change under /verif/seeded against the quick check of the property it breaks; writes seeded/RESULTS.json/.md.
/repo is patched (git apply) and restored (git checkout -- .) around each run; evidence files are preserved."""
import json, os, shutil, subprocess, sys
V = os.path.dirname(os.path.dirname(os.path.abspath(__file__)))
only = sys.argv[1:]
rows = []
for sid in sorted(os.listdir(os.path.join(V, "seeded"))):
    d = os.path.join(V, "seeded", sid)
    if not os.path.isdir(d) or (only and sid not in only and sid.split("-")[0] not in only):
        continue
    meta = json.load(open(os.path.join(d, "meta.json")))
    prop = meta["breaks_property"]
    ev = os.path.join(V, "evidence", prop + ".json")
    bak = "/tmp/ev_" + prop + ".json"
    if os.path.exists(ev):
        shutil.copy(ev, bak)
    assert subprocess.run(["git", "-C", "/repo", "status", "--porcelain", "--untracked-files=no"], capture_output=True, text=True).stdout.strip() == "", "/repo not clean"
    ap = subprocess.run(["git", "-C", "/repo", "apply", os.path.join(d, "patch.diff")], capture_output=True, text=True)
    if ap.returncode != 0:
        rows.append({"seed": sid, "property": prop, "result": "patch does not apply", "detail": ap.stderr[:200]})
        continue
    try:
        p = subprocess.run([os.path.join(V, "check"), prop, "--no-kani"], capture_output=True, text=True, cwd=V)
    finally:
        subprocess.run(["git", "-C", "/repo", "checkout", "--", "."])
        if os.path.exists(bak):
            shutil.copy(bak, ev)
    lines = [l for l in p.stdout.split("\n") if l and not l.startswith("KNOWN-FINDING")]
    res = {0: "MISSED (check passes)", 1: "DETECTED", 2: "UNDECIDED"}.get(p.returncode, str(p.returncode))
    detail = ""
    for l in lines:
        if l.strip().startswith("failed obligation") or l.startswith("UNDECIDED"):
            detail = l.strip()[:220]
            break
    rows.append({"seed": sid, "property": prop, "result": res, "detail": detail, "summary": (meta.get("summary") or "")[:200]})
    print(sid, res, detail[:120], flush=True)
json.dump(rows, open(os.path.join(V, "seeded", "RESULTS.json"), "w"), indent=1)
with open(os.path.join(V, "seeded", "RESULTS.md"), "w") as f:
    f.write("| seed | property | result of `./check <prop>` with the change applied | first failed obligation / reason |\n|---|---|---|---|\n")
    for r in rows:
        f.write(f"| {r['seed']} | {r['property']} | {r['result']} | {r.get('detail','').replace('|','/')} |\n")
    n = len(rows); d = sum(r['result'] == 'DETECTED' for r in rows); u = sum(r['result'] == 'UNDECIDED' for r in rows)
    f.write(f"\n{d} of {n} detected, {u} undecided, {n-d-u} missed.\n")
