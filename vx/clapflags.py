"""Configuration obligation `clap_flags` (mechanical, not deductive): every literal `--flag` the service manager writes into
a service definition is a long option declared by the node's clap derive structs.

Written flags: string literals starting with `--` inside the listed functions. Declared flags: for every field of the listed
structs / enum variants carrying `#[clap(..)]` or `#[arg(..)]` with `long`: `long = "x"` gives x; bare `long` gives the
`name`/`id` value if present, else the field name with `_` -> `-`; `alias`/`visible_alias` add names. An attribute shape
this reader does not know (`long(..)`, `aliases = [..]`, macros) makes the obligation UNDECIDED, never a violation."""
import os, re, sys
HERE = os.path.dirname(os.path.abspath(__file__))
sys.path.insert(0, HERE)
from lex import lex, match_close, locate


def written_flags(repo, sources):
    out = {}
    for (rel, qual) in sources:
        src = open(os.path.join(repo, rel)).read()
        toks = lex(src)
        loc = locate(toks, qual)
        if loc is None:
            raise LookupError(f"{qual} not found in {rel}")
        fn_idx, open_i, close_i = loc[0], loc[1], loc[2]
        for t in toks[open_i:close_i]:
            if t.kind == "str" and t.text.startswith('"--') and t.text.endswith('"'):
                out.setdefault(t.text[1:-1], []).append(f"{rel} {qual}")
    return out


def joined_flags(repo, sources):
    """(flag, delimiter) for every top-level block of a writer that pushes exactly one `--flag` literal and builds a value with
    `.join("<delimiter>")`: several values written as ONE argument"""
    out = []
    for (rel, qual) in sources:
        src = open(os.path.join(repo, rel)).read()
        toks = lex(src)
        loc = locate(toks, qual)
        if loc is None:
            continue
        open_i, close_i = loc[1], loc[2]
        k = open_i + 1
        while k < close_i:
            if toks[k].text == "{":
                e = match_close(toks, k)
                fl = [t.text[1:-1] for t in toks[k:e] if t.kind == "str" and t.text.startswith('"--')]
                js = [toks[j + 3].text[1:-1] for j in range(k, e - 3) if toks[j].text == "." and toks[j + 1].text == "join" and toks[j + 2].text == "(" and toks[j + 3].kind == "str"]
                if len(fl) == 1 and len(set(js)) == 1:
                    out.append((fl[0], js[0], f"{rel} {qual}"))
                k = e + 1
                continue
            k += 1
    return out


def declared_flags(repo, items):
    flags, unknown = set(), []
    delim = {}      # flag -> value_delimiter character (or None)
    for (rel, name) in items:
        src = open(os.path.join(repo, rel)).read()
        toks = lex(src)
        i = 0
        found = False
        while i < len(toks) - 2:
            if toks[i].kind == "ident" and toks[i].text in ("struct", "enum") and toks[i + 1].text == name:
                j = i + 2
                while toks[j].text != "{":
                    j += 1
                end = match_close(toks, j)
                found = True
                k = j + 1
                pending = []
                while k < end:
                    if toks[k].text == "#" and toks[k + 1].text == "[":
                        e = match_close(toks, k + 1)
                        if toks[k + 2].text in ("clap", "arg") and toks[k + 3].text == "(":
                            pending.append((k + 4, match_close(toks, k + 3)))
                        k = e + 1
                        continue
                    if toks[k].kind == "ident" and toks[k + 1].text == ":" and toks[k].text not in ("pub",):
                        field = toks[k].text
                        for (a, b) in pending:
                            keys = {}
                            p = a
                            while p < b:
                                if toks[p].kind == "ident":
                                    key = toks[p].text
                                    if toks[p + 1].text == "=":
                                        q = p + 2
                                        depth = 0
                                        while q < b and not (toks[q].text == "," and depth == 0):
                                            if toks[q].text in "([{":
                                                depth += 1
                                            elif toks[q].text in ")]}":
                                                depth -= 1
                                            q += 1
                                        keys[key] = toks[p + 2:q]
                                        p = q + 1
                                        continue
                                    if toks[p + 1].text == "(":
                                        if key in ("long", "alias", "aliases", "visible_alias", "visible_aliases", "name", "id"):
                                            unknown.append(f"{rel} {name}.{field}: `{key}(..)` form")
                                        p = match_close(toks, p + 1) + 1
                                        continue
                                    keys[key] = None
                                p += 1
                            if "long" not in keys:
                                continue
                            before = set(flags)
                            def lit(v):
                                return v[0].text[1:-1] if v and len(v) == 1 and v[0].kind == "str" else None
                            if keys["long"] is not None:
                                x = lit(keys["long"])
                                if x is None:
                                    unknown.append(f"{rel} {name}.{field}: long = <non-literal>")
                                else:
                                    flags.add("--" + x)
                            else:
                                nm = None
                                for kk in ("name", "id"):
                                    if kk in keys and keys[kk] is not None:
                                        nm = lit(keys[kk])
                                        if nm is None:
                                            unknown.append(f"{rel} {name}.{field}: {kk} = <non-literal>")
                                flags.add("--" + (nm if nm else field.replace("_", "-")))
                            for kk in ("alias", "visible_alias"):
                                if kk in keys and keys[kk] is not None:
                                    x = lit(keys[kk])
                                    if x is None:
                                        unknown.append(f"{rel} {name}.{field}: {kk} = <non-literal>")
                                    else:
                                        flags.add("--" + x)
                            for kk in ("aliases", "visible_aliases"):
                                if kk in keys:
                                    unknown.append(f"{rel} {name}.{field}: `{kk}`")
                            vd = None
                            if keys.get("value_delimiter"):
                                v = keys["value_delimiter"]
                                if len(v) == 1 and len(v[0].text) >= 3 and v[0].text[0] in "'\"":
                                    vd = v[0].text[1:-1]
                                else:
                                    unknown.append(f"{rel} {name}.{field}: value_delimiter = <non-literal>")
                            for fl in set(flags) - before:
                                delim[fl] = vd
                        pending = []
                        # skip the field's type up to the comma at depth 0 (or a variant's brace block)
                    if toks[k].text in "([{":
                        # enum variant bodies: look inside (struct-like variants carry #[arg] fields)
                        if toks[k].text == "{" or toks[k].text == "(":
                            k += 1
                            continue
                    k += 1
                break
            i += 1
        if not found:
            raise LookupError(f"{name} not found in {rel}")
    return flags, unknown, delim


def check(repo, co):
    """returns (status, detail) with status in ok / violation / undecided"""
    try:
        w = written_flags(repo, [tuple(x) for x in co["writers"]])
        d, unknown, delim = declared_flags(repo, [tuple(x) for x in co["declared_in"]])
        joined = joined_flags(repo, [tuple(x) for x in co["writers"]])
    except (LookupError, OSError, Exception) as e:   # noqa
        return "undecided", f"clap_flags: {e}"
    missing = sorted(f for f in w if f not in d)
    if unknown:
        return "undecided", "clap_flags: attribute shapes not understood: " + "; ".join(unknown[:4])
    bad_join = [f"{fl} (values joined with '{dl}' in {where}, declared value_delimiter: {delim.get(fl)!r})" for (fl, dl, where) in joined if fl in d and delim.get(fl) != dl]
    if not missing and bad_join and not unknown:
        return "violation", "several values are written as one argument joined by a delimiter the node does not split on: " + "; ".join(bad_join)
    if missing:
        return "violation", "written but not declared as a long option of the node: " + ", ".join(f"{m} (written in {w[m][0]})" for m in missing)
    return "ok", f"{len(w)} written flags, all among {len(d)} declared long options; {len(joined)} joined value list(s) match the declared value_delimiter"


CONSTRAINT_KEYS = ("conflicts_with", "conflicts_with_all", "requires", "requires_all", "requires_if", "requires_ifs", "required_if_eq", "required_if_eq_any",
                   "required_if_eq_all", "required_unless_present", "required_unless_present_any", "required_unless_present_all", "exclusive", "group", "groups")


def reader_constraints(repo, items):
    """every clap attribute key that constrains one option by another, as (Struct.field, key, argument text) — read from
    the token stream of the derive attributes; the argument text is the tokens joined without blanks"""
    out = []
    for (rel, name) in items:
        src = open(os.path.join(repo, rel)).read()
        toks = lex(src)
        i = 0
        found = False
        while i < len(toks) - 2:
            if toks[i].kind == "ident" and toks[i].text in ("struct", "enum") and toks[i + 1].text == name:
                j = i + 2
                while toks[j].text != "{":
                    j += 1
                end = match_close(toks, j)
                found = True
                k = j + 1
                pending = []
                while k < end:
                    if toks[k].text == "#" and toks[k + 1].text == "[":
                        e = match_close(toks, k + 1)
                        if toks[k + 2].text in ("clap", "arg", "command", "group") and toks[k + 3].text == "(":
                            pending.append((k + 4, match_close(toks, k + 3)))
                        k = e + 1
                        continue
                    if toks[k].kind == "ident" and toks[k + 1].text == ":" and toks[k].text != "pub":
                        field = toks[k].text
                        for (a, b) in pending:
                            p = a
                            depth = 0
                            while p < b:
                                t = toks[p]
                                if t.text in "([{":
                                    depth += 1
                                elif t.text in ")]}":
                                    depth -= 1
                                elif depth == 0 and t.kind == "ident" and t.text in CONSTRAINT_KEYS:
                                    # argument: `= expr` up to the next top-level comma, or `( .. )`
                                    if toks[p + 1].text == "=":
                                        q = p + 2
                                        d2 = 0
                                        while q < b and not (toks[q].text == "," and d2 == 0):
                                            if toks[q].text in "([{":
                                                d2 += 1
                                            elif toks[q].text in ")]}":
                                                d2 -= 1
                                            q += 1
                                        out.append((f"{name}.{field}", t.text, "".join(x.text for x in toks[p + 2:q])))
                                        p = q
                                        continue
                                    if toks[p + 1].text == "(":
                                        q = match_close(toks, p + 1)
                                        out.append((f"{name}.{field}", t.text, "".join(x.text for x in toks[p + 2:q])))
                                        p = q + 1
                                        continue
                                    out.append((f"{name}.{field}", t.text, ""))
                                p += 1
                        pending = []
                    k += 1
                break
            i += 1
        if not found:
            raise LookupError(f"{name} not found in {rel}")
    return out


def check_constraints(repo, co):
    """configuration obligation `clap_constraints`: every constraint BETWEEN options that the reader's clap definition declares
    is one the contracts model (`modelled` in props.json, each with the obligation that carries it). A constraint the
    contracts do not model leaves the property UNDECIDED (nothing decides whether the writers respect it)."""
    try:
        found = reader_constraints(repo, [tuple(x) for x in co["declared_in"]])
    except Exception as e:   # noqa
        return "undecided", f"clap_constraints: {e}"
    modelled = {(m[0], m[1], m[2]) for m in co["modelled"]}
    extra = [c for c in found if c not in modelled]
    if extra:
        return "undecided", "the node's clap definition declares constraints between options that no contract models: " + "; ".join(f"{f} {k}({a})" for (f, k, a) in extra[:5])
    gone = sorted(modelled - set(found))
    return "ok", f"{len(found)} constraint(s) between options declared by the reader, all modelled" + (f"; {len(gone)} modelled constraint(s) no longer declared (the reader accepts more)" if gone else "")


if __name__ == "__main__":
    import json
    repo = sys.argv[1] if len(sys.argv) > 1 else "/repo"
    props = json.load(open(os.path.join(HERE, "..", "props.json")))
    for co in props["C20"].get("config_obligations", []):
        if co.get("kind") == "clap_flags":
            print(check(repo, co))
            print(reader_constraints(repo, [tuple(x) for x in co["declared_in"]]))
        if co.get("kind") == "clap_constraints":
            print(check_constraints(repo, co))
