#!/bin/sh
# apply a seeded patch to /repo, run the check for its property, undo; evidence is preserved
# usage: vx/seedtest.sh <prop> <patch>
prop="$1"; patch="$2"
cp /verif/evidence/$prop.json /tmp/ev_$prop.json 2>/dev/null
git -C /repo apply "$patch" || exit 3
/verif/check "$prop" --no-kani | grep -v "^KNOWN-FINDING"; 
git -C /repo checkout -- .
cp /tmp/ev_$prop.json /verif/evidence/$prop.json 2>/dev/null
