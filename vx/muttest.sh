#!/bin/sh
# developer self-test: apply a sed expression to a file in a scratch copy of /repo and run a check against it
# usage: vx/muttest.sh <Cxx> <relative file> <sed-expr> [more sed exprs...]
prop="$1"; file="$2"; shift 2
rsync -a --delete --exclude target --exclude .git /repo/ /tmp/mut/
for e in "$@"; do sed -i -E "$e" "/tmp/mut/$file"; done
( cd /tmp/mut && diff -u "/repo/$file" "$file" | head -20 )
cp /verif/evidence/$prop.json /tmp/ev_$prop.json 2>/dev/null
VERIF_REPO=/tmp/mut /verif/check "$prop" --no-kani; echo "exit=$?"
cp /tmp/ev_$prop.json /verif/evidence/$prop.json 2>/dev/null
