"""engine K — Kani in place on a scratch copy of /repo's working tree.

The scratch copy lives under /verif/build/kani-src (rsync of /repo without target/.git), the harness files of
/verif/kani/<crate>/verif_kani.rs are dropped next to each crate's lib.rs and `#[cfg(kani)] mod verif_kani;` is
appended to lib.rs (insertion only; function bodies are byte-identical to /repo's).
"""
import json
import os
import re
import subprocess
import time

HERE = os.path.dirname(os.path.abspath(__file__))
VERIF = os.path.dirname(HERE)

TRACING_STUBS = """
// stubs needed because kani-compiler 0.68 cannot compile code reaching catch_unwind / thread_local destructors (tracing macros)
"""


def load():
    try:
        return json.load(open(os.path.join(VERIF, "kani", "harnesses.json")))
    except Exception:
        return []


def prepare(repo, build):
    src = os.path.join(build, "kani-src")
    os.makedirs(src, exist_ok=True)
    subprocess.run(["rsync", "-a", "--delete", "--exclude", "target", "--exclude", ".git", repo.rstrip("/") + "/", src + "/"], check=True)
    crates = sorted({h["crate"] for h in load()})
    for c in crates:
        hf = os.path.join(VERIF, "kani", c, "verif_kani.rs")
        lib = os.path.join(src, c, "src", "lib.rs")
        if not os.path.exists(hf) or not os.path.exists(lib):
            continue
        open(os.path.join(src, c, "src", "verif_kani.rs"), "w").write(open(hf).read())
        txt = open(lib).read()
        if "mod verif_kani;" not in txt:
            open(lib, "a").write("\n#[cfg(kani)]\nmod verif_kani;\n")
    os.makedirs(os.path.join(src, ".cargo"), exist_ok=True)
    open(os.path.join(src, ".cargo", "config.toml"), "w").write(
        "[net]\noffline = true\n\n[patch.crates-io]\nbacktrace = { path = \"%s\" }\n" % os.path.join(VERIF, "vendor", "backtrace-0.3.71"))
    return src


def run_harness(h, src, build, playback=True):
    env = dict(os.environ, CARGO_NET_OFFLINE="true", CARGO_TARGET_DIR=os.path.join(build, "kani-target"))
    cmd = ["cargo", "kani", "-p", h["crate"], "-Z", "function-contracts", "-Z", "stubbing", "-Z", "concrete-playback", "--concrete-playback=print",
           "--harness", h["harness"]]
    t0 = time.time()
    rec = {"name": h["name"], "harness": h["harness"], "crate": h["crate"], "what": h.get("what"), "pairs": h.get("pairs", []),
           "bounded": (None if h.get("complete") else h.get("bound", "bounded")), "known": h.get("known"), "cmd": " ".join(cmd)}
    try:
        p = subprocess.run(cmd, cwd=src, env=env, capture_output=True, text=True, timeout=h.get("timeout", 900))
        out = p.stdout + "\n" + p.stderr
    except subprocess.TimeoutExpired:
        rec.update(status="undecided", failure="timeout", wall_s=round(time.time() - t0, 1))
        return rec
    rec["wall_s"] = round(time.time() - t0, 1)
    if "VERIFICATION:- SUCCESSFUL" in out:
        rec["status"] = "passed"
        m = re.search(r"Verification Time: ([0-9.]+)s", out)
        if m:
            rec["cbmc_s"] = float(m.group(1))
    elif "VERIFICATION:- FAILED" in out:
        rec["status"] = "failed"
        fails = re.findall(r"Failed Checks: (.*)", out)
        rec["failure"] = "; ".join(fails[:4]) or "verification failed"
        m = re.search(r"Concrete playback unit test for `[^`]*`:\s*```\s*(.*?)```", out, re.S)
        if m:
            rec["concrete_playback_test"] = m.group(1)
        rec["output_tail"] = out[-3000:]
    else:
        rec["status"] = "undecided"
        rec["failure"] = "kani did not report a verdict (compile error or tool failure)"
        rec["output_tail"] = out[-3000:]
    return rec


def playback(rec, src, build):
    """replay Kani's counterexample on the real code: append the generated unit test to the harness module of the
    scratch copy and run it with `cargo kani playback` (a normal test run of the real crate, no model checker)"""
    test = rec.get("concrete_playback_test")
    if not test:
        return None
    m = re.search(r"fn (kani_concrete_playback_\w+)", test)
    if not m:
        return None
    hf = os.path.join(src, rec["crate"], "src", "verif_kani.rs")
    txt = open(hf).read()
    if m.group(1) not in txt:
        open(hf, "a").write("\n" + test.replace("kani::concrete_playback_run(concrete_vals, ", "kani::concrete_playback_run(concrete_vals, ") + "\n")
    env = dict(os.environ, CARGO_NET_OFFLINE="true", CARGO_TARGET_DIR=os.path.join(build, "kani-target"))
    cmd = ["cargo", "kani", "playback", "-Z", "concrete-playback", "-p", rec["crate"], "--", m.group(1)]
    try:
        p = subprocess.run(cmd, cwd=src, env=env, capture_output=True, text=True, timeout=1800)
        out = p.stdout + "\n" + p.stderr
    except subprocess.TimeoutExpired:
        return {"cmd": " ".join(cmd), "result": "timeout"}
    pan = re.findall(r"panicked at [^\n]*\n[^\n]*", out)
    return {"cmd": " ".join(cmd), "test": m.group(1), "exit": p.returncode, "panic": pan[:2], "failed_as_expected": p.returncode != 0 and ("FAILED" in out or bool(pan)), "output_tail": out[-1200:]}


def run_for_property(prop, tier, repo, build, enabled=True):
    hs = [h for h in load() if prop in h.get("props", [])]
    if not hs:
        return None
    res = {"harnesses": [], "cmd": "cargo kani -p <crate> -Z function-contracts -Z stubbing -Z concrete-playback --concrete-playback=print --harness <h> (on build/kani-src, a copy of /repo's working tree)", "counterexample": None}
    # quick tier: Kani is the thorough tier's engine; quick runs it only when asked with VERIF_KANI=1
    if not enabled or (tier != "thorough" and os.environ.get("VERIF_KANI") != "1"):
        for h in hs:
            res["harnesses"].append({"name": h["name"], "harness": h["harness"], "status": "not_run", "what": h.get("what"), "pairs": h.get("pairs", []),
                                     "bounded": (None if h.get("complete") else h.get("bound", "bounded")), "reason": "Kani harnesses run in the thorough tier"})
        return res
    src = prepare(repo, build)
    import concurrent.futures
    # build once (first harness), then the rest in parallel (CBMC is the expensive part; 4 at a time for memory)
    recs = [run_harness(hs[0], src, build)]
    with concurrent.futures.ThreadPoolExecutor(max_workers=4) as ex:
        recs += list(ex.map(lambda h: run_harness(h, src, build), hs[1:]))
    for rec in recs:
        res["harnesses"].append(rec)
        if rec["status"] == "failed" and rec.get("concrete_playback_test") and res["counterexample"] is None:
            pb = playback(rec, src, build)
            res["counterexample"] = {"harness": rec["name"], "concrete_playback_test": rec["concrete_playback_test"], "replayed": bool(pb and pb.get("failed_as_expected")), "playback": pb,
                                     "how": "Kani's concrete playback unit test was appended to the harness module of the scratch copy of the crate and executed with `cargo kani playback`"}
    return res


def counterexample_for(prop, obligation_ids, repo, build):
    """a Verus obligation failed: run the paired Kani harness (if any) to obtain a concrete failing input"""
    hs = [h for h in load() if any(o.split("::", 1)[-1] in p or p in o for o in obligation_ids for p in h.get("pairs", []))]
    if not hs:
        return None
    try:
        src = prepare(repo, build)
    except Exception as e:
        return {"replayed": False, "note": f"could not prepare the Kani scratch copy: {e}"}
    for h in hs:
        rec = run_harness(h, src, build)
        if rec["status"] == "failed" and rec.get("concrete_playback_test"):
            pb = playback(rec, src, build)
            return {"harness": rec["name"], "concrete_playback_test": rec["concrete_playback_test"], "failure": rec.get("failure"),
                    "replayed": bool(pb and pb.get("failed_as_expected")), "playback": pb,
                    "how": "Kani's concrete playback unit test was appended to the harness module of the scratch copy of the crate and executed with `cargo kani playback`: it calls the real function with the failing input"}
    return {"replayed": False, "note": "paired Kani harness(es) " + ", ".join(h["name"] for h in hs) + " did not produce a counterexample"}
