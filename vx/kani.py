"""engine K (Kani in place) — filled in later; stub keeps the driver interface stable."""


def run_for_property(prop, tier, repo, build, enabled=True):
    return None


def counterexample_for(prop, obligation_ids, repo, build):
    return None
