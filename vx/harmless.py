#!/usr/bin/env python3
"""no-false-alarm self-test: every change under /verif/harmless keeps the property (a behaviour-preserving refactor: a check moved
unchanged into a helper, a renamed local, an added log line). Each is applied to a scratch copy of /repo and the quick checks of the
properties its files serve are run; exit 1 (an alarm) on any of them is a defect of the machinery. Exit 0 (verified) is the goal,
exit 2 (undecided) is tolerated and reported. Not part of the registered checks."""
import concurrent.futures, json, os, shutil, subprocess, sys, tempfile
V = os.path.dirname(os.path.dirname(os.path.abspath(__file__)))
only = sys.argv[1:]
props = sorted(json.load(open(os.path.join(V, "props.json"))))

def one(hid):
    d = os.path.join(V, "harmless", hid)
    meta = json.load(open(os.path.join(d, "meta.json")))
    tmp = tempfile.mkdtemp(prefix="harmless_")
    out = []
    try:
        repo = os.path.join(tmp, "repo")
        subprocess.run(["rsync", "-a", "--exclude", "target", "--exclude", ".git", "/repo/", repo + "/"], check=True)
        ap = subprocess.run(["patch", "-p1", "-s", "-i", os.path.join(d, "patch.diff")], cwd=repo, capture_output=True, text=True)
        if ap.returncode != 0:
            return [(hid, "-", "patch does not apply", (ap.stdout + ap.stderr)[:200])]
        which = props if meta.get("property") == "*" else meta["property"].split(",")
        for prop in which:
            env = dict(os.environ, VERIF_REPO=repo, VERIF_BUILD=os.path.join(tmp, "build"), VERIF_EVIDENCE_DIR=os.path.join(tmp, "evidence"))
            p = subprocess.run([os.path.join(V, "check"), prop, "--no-kani"], capture_output=True, text=True, cwd=V, env=env)
            detail = ""
            for l in p.stdout.split("\n"):
                if l.strip().startswith("failed obligation") or l.startswith("UNDECIDED"):
                    detail = l.strip()[:260]
                    break
            out.append((hid, prop, {0: "verified", 1: "ALARM", 2: "undecided"}.get(p.returncode, str(p.returncode)), detail))
    finally:
        shutil.rmtree(tmp, ignore_errors=True)
    return out

hids = [h for h in sorted(os.listdir(os.path.join(V, "harmless"))) if os.path.isdir(os.path.join(V, "harmless", h)) and (not only or h in only)]
bad = 0
rows = []
with concurrent.futures.ThreadPoolExecutor(max_workers=5) as ex:
    for rs in ex.map(one, hids):
        for r in rs:
            rows.append(r)
            print(*r, flush=True)
            if r[2] not in ("verified", "undecided"):
                bad = 1
if not only:
    with open(os.path.join(V, "harmless", "RESULTS.md"), "w") as f:
        f.write("| change | property | result | reason when undecided |\n|---|---|---|---|\n")
        for r in rows:
            f.write(f"| {r[0]} | {r[1]} | {r[2]} | {r[3].replace('|', '/')} |\n")
sys.exit(bad)
