"""Mechanical extraction of real function bodies from /repo and the fixed rewrite rules (DESIGN 2.2).

A Body is the token range of one function body in a real source file plus a list of text edits
(start, end, replacement, rule, original).  Edits never overlap after resolution: the outermost
edit wins and everything it swallowed is reported as dropped with it.
"""
import re
from lex import lex, match_close, locate, param_names, Tok, OPEN, CLOSE, LexError


class LostAnchor(Exception):
    """the real code no longer has the shape the unit expects -> UNDECIDED, never an alarm"""


LOGMACROS = {"trace", "debug", "info", "warn", "error", "println", "eprintln"}
BLOCK_KW = {"if", "match", "for", "while", "loop", "unsafe"}


class Source:
    cache = {}

    def __init__(self, path):
        self.path = path
        self.src = open(path, encoding="utf-8").read()
        self.toks = lex(self.src)
        # line starts for char->line mapping
        self.line_starts = [0]
        for m in re.finditer("\n", self.src):
            self.line_starts.append(m.end())

    @classmethod
    def get(cls, path):
        if path not in cls.cache:
            cls.cache[path] = Source(path)
        return cls.cache[path]

    def line_of(self, pos):
        import bisect
        return bisect.bisect_right(self.line_starts, pos)


def stmt_spans(toks, a, b):
    """split tokens strictly inside the braces toks[a]..toks[b] into top-level statements.
    returns list of (s, e) inclusive token indices."""
    out = []
    i = a + 1
    s = i
    while i < b:
        t = toks[i]
        if i == s:
            # skip attributes at statement start (kept inside the statement span)
            while toks[i].text == "#" and i + 1 < b and toks[i + 1].text == "[":
                i = match_close(toks, i + 1) + 1
            t = toks[i]
            # labels
            if t.kind == "lifetime" and toks[i + 1].text == ":":
                i += 2
                t = toks[i]
            if (t.kind == "ident" and t.text in BLOCK_KW) or (t.kind == "punct" and t.text == "{"):
                # block-like expression statement
                j = i
                while True:
                    # find the block opener at depth 0
                    while not (toks[j].kind == "punct" and toks[j].text == "{"):
                        if toks[j].kind == "punct" and toks[j].text in ("(", "["):
                            j = match_close(toks, j)
                        j += 1
                    j = match_close(toks, j)
                    if j + 1 < b and toks[j + 1].kind == "ident" and toks[j + 1].text == "else":
                        j += 2
                        continue
                    break
                nxt = toks[j + 1] if j + 1 < b else None
                if nxt is not None and nxt.kind == "punct" and nxt.text in (".", "?"):
                    i = j + 1  # continues as an expression; fall through to ';' search
                    continue
                if nxt is not None and nxt.kind == "punct" and nxt.text == ";":
                    j += 1
                out.append((s, j))
                i = j + 1
                s = i
                continue
            if t.kind == "ident" and t.text == "fn" or (t.kind == "ident" and t.text in ("pub", "async", "const") and toks[i + 1].text == "fn"):
                j = i
                while toks[j].text != "{":
                    if toks[j].text in ("(", "["):
                        j = match_close(toks, j)
                    j += 1
                j = match_close(toks, j)
                out.append((s, j))
                i = j + 1
                s = i
                continue
        if t.kind == "punct" and t.text in OPEN:
            i = match_close(toks, i) + 1
            continue
        if t.kind == "punct" and t.text == ";":
            out.append((s, i))
            i += 1
            s = i
            continue
        i += 1
    if s < b:
        out.append((s, b - 1))
    return out


def all_blocks(toks, a, b):
    """yield (open, close) for every brace block strictly inside and including toks[a]..toks[b]."""
    i = a
    while i <= b:
        if toks[i].kind == "punct" and toks[i].text == "{":
            yield (i, match_close(toks, i))
        i += 1


def parse_pattern(text):
    """pattern text -> token list where `$$` is a wildcard for a balanced token run"""
    parts = text.split("$$")
    toks = []
    for k, p in enumerate(parts):
        if k:
            toks.append(None)
        toks.extend(t.text for t in lex(p))
    return toks


def match_pattern(toks, i, hi, pat, pi=0):
    """try to match pat[pi:] at token i; returns (end_idx_exclusive, [wild spans]) or None"""
    caps = []
    while pi < len(pat):
        p = pat[pi]
        if p is None:
            # wildcard: minimal balanced run such that the rest matches
            j = i
            while j <= hi:
                if pi + 1 == len(pat):
                    # trailing wildcard: not supported (ambiguous)
                    raise ValueError("pattern must not end with $$")
                r = match_pattern(toks, j, hi, pat, pi + 1) if (j < hi and toks[j].text == pat[pi + 1]) else None
                if r is not None:
                    return (r[0], caps + [(i, j)] + r[1])
                if j >= hi:
                    return None
                t = toks[j]
                if t.kind == "punct" and t.text in OPEN:
                    j = match_close(toks, j) + 1
                elif t.kind == "punct" and t.text in CLOSE:
                    return None
                else:
                    j += 1
            return None
        if i >= hi or toks[i].text != p:
            return None
        i += 1
        pi += 1
    return (i, caps)


class Body:
    def __init__(self, source, qual, nth=0, closure=None):
        self.source = source
        self.qual = qual
        toks = source.toks
        r = locate(toks, qual)
        if r is None:
            raise LostAnchor(f"function {qual} not found in {source.path}")
        self.fn_idx, self.open, self.close = r
        self.toks = toks
        self.src = source.src
        self.edits = []   # (start, end, replacement, rule, note)
        self.report = []  # (rule, original text)
        self.lost_hints = []
        self.params = param_names(toks, self.fn_idx, self.open)
        self.is_async = self.fn_idx > 0 and toks[self.fn_idx - 1].text == "async"
        if closure:
            # R11: the block body of the named local closure `let NAME = |params| [-> T] { .. };` becomes the body
            found = None
            for i in range(self.open + 1, self.close - 3):
                if toks[i].text == "let" and toks[i + 1].text == closure and toks[i + 2].text == "=":
                    j = i + 3
                    if toks[j].text == "move":
                        j += 1
                    if toks[j].text != "|":
                        continue
                    pe = j + 1
                    while toks[pe].text != "|":
                        if toks[pe].text in OPEN:
                            pe = match_close(toks, pe)
                        pe += 1
                    names = []
                    seg = []
                    for t in toks[j + 1:pe]:
                        if t.text == ",":
                            names.append(seg[0].text if seg else "_")
                            seg = []
                        else:
                            seg.append(t)
                    if seg:
                        names.append(seg[0].text)
                    b = pe + 1
                    while toks[b].text != "{":
                        b += 1
                    found = (b, match_close(toks, b), names)
                    break
            if found is None and closure.startswith("#"):
                # anonymous closure number k of the function (source order), block body required
                cl = self.closures()
                k = int(closure[1:])
                if k >= len(cl):
                    raise LostAnchor(f"closure {closure} not found in {qual} ({len(cl)} closures)")
                st, pe, bs, be = cl[k]
                if toks[bs].text != "{":
                    raise LostAnchor(f"closure {closure} of {qual} has no block body")
                ps = st + 1 if toks[st].text == "move" else st
                names = []
                if toks[ps].text == "|":
                    seg = []
                    for t in toks[ps + 1:pe]:
                        if t.text == ",":
                            names.append(seg[0].text if seg else "_")
                            seg = []
                        else:
                            seg.append(t)
                    if seg:
                        names.append(seg[0].text)
                found = (bs, be, names)
            if found is None:
                raise LostAnchor(f"local closure {closure} not found in {qual}")
            self.open, self.close, self.params = found
            self.qual = qual + "::" + closure
        self.first_line = source.line_of(toks[self.open].start)

    # -------------------------------------------------------------- helpers
    def text(self, i, j):
        """source text of tokens i..j inclusive"""
        return self.src[self.toks[i].start:self.toks[j].end]

    def edit(self, start, end, repl, rule, note=None):
        self.edits.append((start, end, repl, rule))
        self.report.append((rule, (note if note is not None else self.src[start:end]).strip()[:200]))

    def insert(self, pos, text, rule="template", order=0):
        self.edits.append((pos, pos, text, rule, order))

    def signature_text(self):
        return self.text(self.fn_idx, self.open - 1)

    # -------------------------------------------------------------- fixed rules
    def rule_logging(self):
        """R1: logging macro invocations -> `()` (statement or expression position)."""
        i = self.open
        toks = self.toks
        while i < self.close:
            t = toks[i]
            if t.kind == "ident" and t.text in LOGMACROS and toks[i + 1].text == "!" and toks[i + 2].text in ("(", "[", "{") \
                    and (toks[i - 1].text not in ("::", ".")):
                j = match_close(toks, i + 2)
                self.edit(t.start, toks[j].end, "()", "R1-log")
                i = j + 1
                continue
            # `Marker::X(..).log();` — the crate's structured log markers
            if t.kind == "ident" and t.text == "Marker" and toks[i + 1].text == "::" and toks[i - 1].text in (";", "{", "}"):
                j = i
                while j < self.close and toks[j].text != ";":
                    if toks[j].kind == "punct" and toks[j].text in OPEN:
                        j = match_close(toks, j)
                    j += 1
                if toks[j - 1].text == ")" and toks[j - 3].text == "log" :
                    self.edit(t.start, toks[j - 1].end, "()", "R1-marker-log")
                    i = j
                    continue
            i += 1

    def rule_inspect_err_logging(self):
        """R1b: `.inspect_err(|x| <logging macro>)` segments are deleted."""
        toks = self.toks
        i = self.open
        while i < self.close:
            if toks[i].text == "." and toks[i + 1].text in ("inspect_err", "inspect") and toks[i + 2].text == "(":
                j = match_close(toks, i + 2)
                inner = toks[i + 3:j]
                # closure whose body is solely a logging macro (optionally in braces)
                txt = [t.text for t in inner]
                k = 0
                if txt and txt[0] == "|":
                    k = txt.index("|", 1) + 1
                    body = inner[k:]
                    if body and body[0].text == "{" and body[-1].text == "}":
                        body = body[1:-1]
                        if body and body[-1].text == ";":
                            body = body[:-1]
                    if len(body) >= 3 and body[0].text in LOGMACROS and body[1].text == "!":
                        self.edit(toks[i].start, toks[j].end, "", "R1b-inspect-log")
                        i = j + 1
                        continue
            i += 1

    def rule_cfg_features(self, features_off=("open-metrics", "loud"), features_on=()):
        """R2: statements under #[cfg(feature = "F")] for F switched off are deleted with the attribute;
        for F switched on the attribute alone is deleted."""
        toks = self.toks
        for (a, b) in list(all_blocks(toks, self.open, self.close)):
            if a < self.open or b > self.close:
                continue
            for (s, e) in stmt_spans(toks, a, b):
                if toks[s].text == "#" and toks[s + 1].text == "[":
                    k = match_close(toks, s + 1)
                    attr = self.text(s, k)
                    m = re.search(r'cfg\(\s*(not\()?\s*feature\s*=\s*"([^"]+)"', attr)
                    if not m:
                        continue
                    neg, feat = bool(m.group(1)), m.group(2)
                    if feat in features_off:
                        on = False
                    elif feat in features_on:
                        on = True
                    else:
                        continue
                    if neg:
                        on = not on
                    if on:
                        self.edit(toks[s].start, toks[k].end, "", "R2-cfg-on", attr)
                    else:
                        self.edit(toks[s].start, toks[e].end, "", "R2-cfg-off")

    def rule_cfg_fields(self, features_off=("open-metrics", "loud"), features_on=()):
        """R2b: `#[cfg(feature = "F")] field: expr,` inside a struct literal (or any comma-separated list):
        the element is deleted when F is off, the attribute alone when F is on."""
        toks = self.toks
        covered = [(a, b) for (a, b, *_r) in self.edits]
        i = self.open + 1
        while i < self.close:
            if toks[i].text == "#" and toks[i + 1].text == "[" and toks[i + 2].text == "cfg":
                k = match_close(toks, i + 1)
                attr = self.text(i, k)
                if any(a <= toks[i].start < b for (a, b) in covered):
                    i = k + 1
                    continue
                m = re.search(r'cfg\(\s*(not\()?\s*feature\s*=\s*"([^"]+)"', attr)
                if m and (m.group(2) in features_off or m.group(2) in features_on):
                    on = (m.group(2) in features_on) != bool(m.group(1))
                    if on:
                        self.edit(toks[i].start, toks[k].end, "", "R2b-cfg-on", attr)
                    else:
                        j = k + 1
                        while j < self.close:
                            t = toks[j]
                            if t.kind == "punct" and t.text in OPEN:
                                j = match_close(toks, j) + 1
                                continue
                            if t.kind == "punct" and t.text == ",":
                                break
                            if t.kind == "punct" and t.text in CLOSE:
                                j -= 1
                                break
                            j += 1
                        self.edit(toks[i].start, toks[j].end, "", "R2b-cfg-off")
                i = k + 1
                continue
            i += 1

    def rule_cfg_macro(self, features_on=(), features_off=()):
        """R13: cfg!(feature = "F") -> true/false"""
        toks = self.toks
        i = self.open
        while i < self.close:
            if toks[i].text == "cfg" and toks[i + 1].text == "!" and toks[i + 2].text == "(":
                j = match_close(toks, i + 2)
                txt = self.text(i, j)
                m = re.search(r'feature\s*=\s*"([^"]+)"', txt)
                if m and m.group(1) in features_on:
                    self.edit(toks[i].start, toks[j].end, "true", "R13-cfg!")
                elif m and m.group(1) in features_off:
                    self.edit(toks[i].start, toks[j].end, "false", "R13-cfg!")
                else:
                    raise LostAnchor(f"cfg! on a feature the unit does not fix: {txt}")
                i = j
            i += 1

    def rule_await(self):
        """R3: `.await` deleted"""
        toks = self.toks
        n = 0
        for i in range(self.open, self.close):
            if toks[i].text == "." and toks[i + 1].kind == "ident" and toks[i + 1].text == "await":
                self.edits.append((toks[i].start, toks[i + 1].end, "", "R3-await"))
                n += 1
        if n:
            self.report.append(("R3-await", f"{n} suspension point(s) removed"))

    def rule_opaque_macros(self, names=("format", "eyre")):
        """R4: format!(..)/eyre!(..) -> opaque constructor"""
        toks = self.toks
        i = self.open
        while i < self.close:
            if toks[i].kind == "ident" and toks[i].text in names and toks[i + 1].text == "!" and toks[i + 2].text in ("(", "["):
                j = match_close(toks, i + 2)
                self.edit(toks[i].start, toks[j].end, "__opaque_%s()" % toks[i].text, "R4-" + toks[i].text)
                i = j + 1
                continue
            i += 1

    def rule_vec_chain(self):
        """R14: vec![e1, .., en] -> __vec_lit().__with(e1)...__with(en) (the literal's elements in order; `vec![x; n]` untouched)"""
        toks = self.toks
        i = self.open
        n = 0
        while i < self.close:
            if toks[i].kind == "ident" and toks[i].text == "vec" and toks[i + 1].text == "!" and toks[i + 2].text == "[":
                j = match_close(toks, i + 2)
                depth = 0
                commas = []
                semi = False
                for k in range(i + 3, j):
                    t = toks[k].text
                    if t in ("(", "[", "{"):
                        depth += 1
                    elif t in (")", "]", "}"):
                        depth -= 1
                    elif depth == 0 and t == ",":
                        commas.append(k)
                    elif depth == 0 and t == ";":
                        semi = True
                if semi:
                    i = j + 1
                    continue
                self.edits.append((toks[i].start, toks[i + 2].end, "__vec_lit()", "R14-vec"))
                starts = [i + 3] + [c + 1 for c in commas]
                ends = commas + [j]
                for (a, b) in zip(starts, ends):
                    if a >= b:
                        continue          # trailing comma
                    self.insert(toks[a].start, ".__with(", "R14-vec", order=-2 * 10 ** 12)
                    if b in commas:
                        self.edits.append((toks[b].start, toks[b].end, ")", "R14-vec"))
                    else:
                        self.insert(toks[b].start, ")", "R14-vec", order=2 * 10 ** 12)
                self.edits.append((toks[j].start, toks[j].end, "", "R14-vec"))
                n += 1
                i += 3
                continue
            i += 1
        if n:
            self.report.append(("R14-vec", f"{n} vec! literal(s) rewritten to a push chain"))

    def rule_format_pieces(self, names=("format", "write")):
        """R4b: format!/write! with a literal format string -> piecewise concatenation of stand-ins"""
        toks = self.toks
        i = self.open
        while i < self.close:
            if toks[i].kind == "ident" and toks[i].text in names and toks[i + 1].text == "!" and toks[i + 2].text == "(":
                j = match_close(toks, i + 2)
                args = split_args(toks, i + 3, j)
                is_write = toks[i].text == "write"
                fmt_arg = args[1] if is_write else args[0]
                if len(fmt_arg) != 1 or fmt_arg[0].kind != "str" or not fmt_arg[0].text.startswith('"'):
                    raise LostAnchor("format string is not a plain literal")
                rest = args[2:] if is_write else args[1:]
                fs = fmt_arg[0].text[1:-1]
                pieces = []
                pos = 0
                argi = 0
                for m in re.finditer(r"\{\{|\}\}|\{([^{}]*)\}", fs):
                    if m.group(0) in ("{{", "}}"):
                        continue
                    if m.start() > pos:
                        pieces.append('__lit("%s")' % fs[pos:m.start()])
                    spec = m.group(1)
                    name, _, f = spec.partition(":")
                    if name == "":
                        if argi >= len(rest):
                            raise LostAnchor("format! positional argument missing")
                        name = "".join(self.text_of(rest[argi]))
                        argi += 1
                    if f == "":
                        pieces.append(f"__disp(&{name})")
                    elif f == "?":
                        pieces.append(f"__dbg(&{name})")
                    elif re.fullmatch(r"0\d+", f):
                        pieces.append(f"__disp_pad0(&{name}, {int(f[1:])})")
                    else:
                        raise LostAnchor(f"unsupported format spec {{{spec}}}")
                    pos = m.end()
                if pos < len(fs):
                    pieces.append('__lit("%s")' % fs[pos:])
                if not pieces:
                    pieces = ['__lit("")']
                expr = "__cat%d(%s)" % (len(pieces), ", ".join(pieces)) if len(pieces) > 1 else pieces[0]
                if is_write:
                    dest = self.text_of(args[0])
                    expr = f"__write_str({dest}, {expr})"
                self.edit(toks[i].start, toks[j].end, expr, "R4b-" + toks[i].text)
                i = j + 1
                continue
            i += 1

    def text_of(self, tl):
        return self.src[tl[0].start:tl[-1].end] if tl else ""

    def rule_spawn_inline(self, names=("spawn",)):
        """R6: spawn(async move { B }) -> { B } ; B must not contain `return`"""
        toks = self.toks
        i = self.open
        while i < self.close:
            if toks[i].kind == "ident" and toks[i].text in names and toks[i + 1].text == "(" and toks[i + 2].text == "async":
                j = match_close(toks, i + 1)
                k = i + 3
                if toks[k].text == "move":
                    k += 1
                if toks[k].text != "{" or match_close(toks, k) != j - 1:
                    raise LostAnchor("spawn(..) argument is not a single async block")
                if any(t.kind == "ident" and t.text == "return" for t in toks[k:j]):
                    raise LostAnchor("spawned block contains return")
                # also swallow a preceding `let _handle = ` or `let _ = `? keep statement shape: replace call by block
                st = toks[i].start
                if toks[i - 1].text == "::":  # tokio::spawn
                    q = i - 1
                    while toks[q].text == "::" and toks[q - 1].kind == "ident":
                        q -= 2
                    st = toks[q + 1].start
                self.edits.append((st, toks[k].start, "", "R6-spawn"))
                self.edits.append((toks[j].start, toks[j].end, "", "R6-spawn"))
                self.report.append(("R6-spawn", "task body inlined at its spawn point: " + self.text(i, k)[:60]))
                i = k
            i += 1

    def rule_for_continue(self):
        """R18: Verus has no `continue` in `for` loops. A guard at the top level of a `for` body —
        `if C { P; continue; } REST` (no else branch, `continue` unlabelled and last in its block) — is read as
        `if C { P } else { REST }`: the `continue;` is deleted, ` else {` is inserted after the guard and the closing brace before
        the end of the loop body. Insertions and one deletion only, so other rules still apply inside. Any other `continue`
        (nested deeper, labelled, in a let-else) is left alone and stays unsupported."""
        toks = self.toks
        n_done = 0
        for (kw, bo, bc) in self.loops():
            if toks[kw].text != "for":
                continue
            closers = 0
            for (s0, e0) in stmt_spans(toks, bo, bc):
                if not (toks[s0].kind == "ident" and toks[s0].text == "if"):
                    continue
                # the block of the if
                j = s0 + 1
                while not (toks[j].kind == "punct" and toks[j].text == "{"):
                    if toks[j].kind == "punct" and toks[j].text in ("(", "["):
                        j = match_close(toks, j)
                    j += 1
                c = match_close(toks, j)
                if c != e0:
                    continue        # has an else branch (or a trailing `;`)
                inner = stmt_spans(toks, j, c)
                if not inner:
                    continue
                (ls, le) = inner[-1]
                if not (toks[ls].kind == "ident" and toks[ls].text == "continue" and le == ls + 1 and toks[le].text == ";"):
                    continue
                if any(t.kind == "ident" and t.text == "continue" for t in toks[j:ls]):
                    continue
                self.edits.append((toks[ls].start, toks[le].end, "", "R18-continue"))
                self.insert(toks[c].end, " else {", "R18-continue")
                closers += 1
                n_done += 1
            if closers:
                self.insert(toks[bc].start, "}" * closers + " ", "R18-continue", order=-5 * 10 ** 12)
        if n_done:
            self.report.append(("R18-continue", f"{n_done} `if .. {{ ..; continue; }}` guard(s) of a for loop read as if/else over the rest of the loop body"))

    def rule_closure_underscore(self):
        """R7b: a closure parameter written `_` is renamed `__u` (Verus rejects `_` closure parameters)"""
        toks = self.toks
        n = 0
        for (st, pe, bs, be) in self.closures():
            for q in range(st, pe + 1):
                if toks[q].kind == "ident" and toks[q].text == "_" and toks[q - 1].text in ("|", ",") and toks[q + 1].text in ("|", ",", ":"):
                    self.edits.append((toks[q].start, toks[q].end, "__u%d" % n, "R7b-closure-underscore"))
                    n += 1
        if n:
            self.report.append(("R7b-closure-underscore", f"{n} `_` closure parameter(s) renamed"))

    def receiver_start(self, dot_idx):
        """token index where the postfix-expression ending just before toks[dot_idx] (a `.`) starts"""
        toks = self.toks
        i = dot_idx - 1
        while True:
            t = toks[i]
            if t.kind == "punct" and t.text in (")", "]"):
                # find the opener
                depth = 0
                j = i
                while True:
                    if toks[j].kind == "punct" and toks[j].text in CLOSE:
                        depth += 1
                    elif toks[j].kind == "punct" and toks[j].text in OPEN:
                        depth -= 1
                        if depth == 0:
                            break
                    j -= 1
                i = j
                # a call/index: continue with what precedes the opener if it is part of the chain
                prev = toks[i - 1]
                if prev.kind in ("ident",) and prev.text not in ("return", "in", "if", "match", "while", "let", "else", "=") or (prev.kind == "punct" and prev.text in (")", "]", "?", ">")):
                    if prev.kind == "punct" and prev.text == ">":
                        # turbofish `::<T>` : skip back to `::`
                        d = 0
                        k = i - 1
                        while True:
                            if toks[k].text == ">":
                                d += 1
                            elif toks[k].text == "<":
                                d -= 1
                                if d == 0:
                                    break
                            k -= 1
                        if toks[k - 1].text == "::":
                            i = k - 2
                            continue
                        return i
                    i -= 1
                    continue
                return i
            if t.kind in ("ident", "num", "str", "char"):
                prev = toks[i - 1]
                if prev.kind == "punct" and prev.text in (".", "::"):
                    i -= 2
                    continue
                return i
            if t.kind == "punct" and t.text == "?":
                i -= 1
                continue
            return i + 1

    def method_to_fn(self, method, repl, count="*"):
        """R5 method-call-to-function-call: `RECV.method(ARGS)` -> repl, where repl contains `$recv` and
        optionally `$args`.  `method` may carry required argument text, e.g. `map(Self)`.
        Only the tokens `.method(` and `)` are edited; receiver and argument text stay in place, so
        other edits inside them still apply."""
        toks = self.toks
        n = 0
        req_args = None
        mm = re.fullmatch(r"(\w+)\((.*)\)", method.strip())
        if mm:
            method, req_args = mm.group(1), [t.text for t in lex(mm.group(2))]
        pre, _, post = repl.partition("$recv")
        post_a, has_args, post_b = post.partition("$args")
        i = self.open + 1
        while i < self.close:
            if toks[i].text == "." and toks[i + 1].kind == "ident" and toks[i + 1].text == method and toks[i + 2].text in ("(", "::"):
                j = i + 2
                if toks[j].text == "::":
                    d = 0
                    j += 1
                    while True:
                        if toks[j].text == "<":
                            d += 1
                        elif toks[j].text == ">":
                            d -= 1
                            if d == 0:
                                break
                        j += 1
                    j += 1
                k = match_close(toks, j)
                if req_args is not None and [t.text for t in toks[j + 1:k]] != req_args:
                    i = j
                    continue
                rs = self.receiver_start(i)
                orig = self.src[toks[rs].start:toks[k].end]
                self.edits.append((toks[rs].start, toks[rs].start, pre, "R5-m2f", -toks[i].start))
                if has_args:
                    pa = post_a
                    if k == j + 1:  # no arguments
                        pa = re.sub(r",\s*$", "", pa)
                    self.edits.append((toks[i].start, toks[j].end, pa, "R5-m2f"))
                    self.edits.append((toks[k].start, toks[k].end, post_b, "R5-m2f"))
                else:
                    self.edits.append((toks[i].start, toks[k].end, post, "R5-m2f"))
                self.report.append(("R5-m2f", f"{orig}  =>  {pre}<receiver>{post}"[:200]))
                n += 1
                i = j
                continue
            i += 1
        if (isinstance(count, int) and n != count) or (count == "*" and n == 0):
            raise LostAnchor(f"{self.qual}: method `.{method}(` found {n} time(s), expected {count}")

    def fragment(self, start_prefix, end_prefix):
        """R10: keep only the top-level statements from the one starting with start_prefix to the one
        starting with end_prefix (inclusive); everything else in the body is dropped and reported."""
        toks = self.toks
        after = start_prefix.strip().startswith(">")    # ">prefix": the fragment starts just AFTER the statement with that prefix
        if after:
            start_prefix = start_prefix.strip()[1:]
        sp = [t.text for t in lex(start_prefix)]
        before = end_prefix.strip().startswith("<")     # "<prefix": the fragment ends just BEFORE the statement with that prefix
        if before:
            end_prefix = end_prefix.strip()[1:]
        ep = [t.text for t in lex(end_prefix)] if end_prefix.strip() != "$" else []
        si = ei = None
        # the function's own block first, then nested blocks in source order (a fragment of a loop body)
        for (bo, bc) in all_blocks(toks, self.open, self.close):
            if start_prefix.strip() == "^" and bo != self.open:
                break
            spans = stmt_spans(toks, bo, bc)
            si = ei = None
            for k, (s, e) in enumerate(spans):
                if si is None and (start_prefix.strip() == "^" or [t.text for t in toks[s:s + len(sp)]] == sp):
                    si = k     # "^": from the first statement of the function
                    if after:
                        si = k + 1
                        continue
                if si is not None and end_prefix.strip() != "$" and [t.text for t in toks[s:s + len(ep)]] == ep:
                    ei = k - 1 if before else k
                    break
            if si is not None and end_prefix.strip() == "$":
                ei = len(spans) - 1
            if si is not None and ei is not None and ei >= si:
                if bo != self.open:
                    self.report.append(("R10-fragment", "fragment taken from a nested block (its enclosing loop/branch is dropped)"))
                break
            si = ei = None
        if si is None or ei is None:
            raise LostAnchor(f"{self.qual}: fragment anchors `{start_prefix}` .. `{end_prefix}` not found")
        a = toks[self.open].end
        b = toks[spans[si][0]].start
        if self.src[a:b].strip():
            self.edit(a, b, "\n", "R10-fragment-drop-before")
        a = toks[spans[ei][1]].end
        b = toks[self.close].start
        if self.src[a:b].strip():
            self.edit(a, b, "\n", "R10-fragment-drop-after")

    # -------------------------------------------------------------- template-driven rules
    def sub(self, pat_text, repl, count=1, rule="R5-sub"):
        """token-level substitution; `$$` wildcards in the pattern are available as $1..$n in repl.
        count: exact number of expected matches (int), or '*' (>=1), or '?' (>=0)."""
        pat = parse_pattern(pat_text)
        toks = self.toks
        i = self.open + 1
        n = 0
        while i < self.close:
            r = match_pattern(toks, i, self.close, pat)
            if r is not None:
                end, caps = r
                out = repl
                for k, (a, b) in enumerate(caps):
                    cap = self.src[toks[a].start:toks[b - 1].end] if b > a else ""
                    out = out.replace("$%d" % (k + 1), cap)
                note = f"{self.src[toks[i].start:toks[end-1].end]}  =>  {out}"
                # when the captures are used once each and in order, only the literal segments are
                # replaced, so that other edits inside the captured regions still apply
                segs = re.split(r"\$(\d)", repl)
                order = [int(x) for x in segs[1::2]]
                if caps and order == list(range(1, len(caps) + 1)) and all(b > a for (a, b) in caps):
                    lits = segs[0::2]
                    pos = toks[i].start
                    for k, (a, b) in enumerate(caps):
                        self.edits.append((pos, toks[a].start, lits[k], rule))
                        pos = toks[b - 1].end
                    self.edits.append((pos, toks[end - 1].end, lits[-1], rule))
                    self.report.append((rule, note.strip()[:200]))
                else:
                    self.edit(toks[i].start, toks[end - 1].end, out, rule, note)
                n += 1
                i = end
                continue
            i += 1
        if (isinstance(count, int) and n != count) or (count == "*" and n == 0):
            raise LostAnchor(f"{self.qual}: pattern `{pat_text}` matched {n} time(s), expected {count}")
        return n

    def loops(self):
        """(kw_idx, body_open, body_close) for each for/while/loop in source order"""
        toks = self.toks
        out = []
        for i in range(self.open + 1, self.close):
            t = toks[i]
            if t.kind == "ident" and t.text in ("for", "while", "loop") and toks[i - 1].text not in (".", "::") :
                if t.text == "for" and toks[i + 1].text == "<":
                    continue  # for<'a> bound
                j = i + 1
                while not (toks[j].kind == "punct" and toks[j].text == "{"):
                    if toks[j].kind == "punct" and toks[j].text in ("(", "["):
                        j = match_close(toks, j)
                    j += 1
                out.append((i, j, match_close(toks, j)))
        return out

    def closures(self):
        """(start_idx, params_end_idx, body_start, body_end) for each closure in source order (token idx, inclusive)"""
        toks = self.toks
        out = []
        i = self.open + 1
        while i < self.close:
            t = toks[i]
            prev = toks[i - 1]
            starts = t.kind == "punct" and t.text in ("|", "||") and (
                prev.text in ("(", ",", "=", "move", "{", ";", "=>", "return") or prev.text == "[")
            if starts:
                st = i - 1 if prev.text == "move" else i
                if t.text == "||":
                    pe = i
                else:
                    pe = i + 1
                    while toks[pe].text != "|":
                        if toks[pe].text in OPEN:
                            pe = match_close(toks, pe)
                        pe += 1
                bs = pe + 1
                if toks[bs].text == "->":
                    # explicit return type: body is a block
                    while toks[bs].text != "{":
                        bs += 1
                if toks[bs].text == "{":
                    be = match_close(toks, bs)
                else:
                    be = bs
                    while True:
                        tt = toks[be]
                        if tt.kind == "punct" and tt.text in OPEN:
                            be = match_close(toks, be) + 1
                            continue
                        if tt.kind == "punct" and (tt.text in CLOSE or tt.text in (",", ";")):
                            break
                        be += 1
                    be -= 1
                out.append((st, pe, bs, be))
                i = pe + 1
                continue
            i += 1
        return out

    def find_stmt(self, anchor_text, nth=0):
        """(start_tok, end_tok) of the nth statement (any nesting depth) whose leading tokens equal anchor_text"""
        pat = [t.text for t in lex(anchor_text)]
        toks = self.toks
        seen = 0
        for (a, b) in all_blocks(toks, self.open, self.close):
            if b > self.close:
                continue
            for (s, e) in stmt_spans(toks, a, b):
                if [t.text for t in toks[s:s + len(pat)]] == pat:
                    if seen == nth:
                        return (s, e)
                    seen += 1
        raise LostAnchor(f"{self.qual}: no statement starting with `{anchor_text}` (occurrence {nth})")

    # -------------------------------------------------------------- rendering
    def render(self):
        """body text (including the outer braces) with all edits applied.
        returns (text, linemap): linemap[i] is the source line the first original character of
        output line i came from (None for lines made only of inserted text)."""
        lo = self.toks[self.open].start
        hi = self.toks[self.close].end
        edits = sorted(self.edits, key=lambda e: (e[0], 0 if e[1] == e[0] else 1, (e[4] if len(e) > 4 else 0), -(e[1] - e[0])))
        chunks = []
        pos = lo
        for e in edits:
            a, b, r, rule = e[0], e[1], e[2], e[3]
            if a < lo or b > hi:
                continue
            if a < pos:
                continue  # swallowed by an outer edit
            chunks.append((self.src[pos:a], pos))
            chunks.append((r, None))
            pos = b
        chunks.append((self.src[pos:hi], pos))
        text = ""
        linemap = [None]
        for (chunk, origin) in chunks:
            if not chunk:
                continue
            off = 0
            for k, piece in enumerate(chunk.split("\n")):
                if k:
                    linemap.append(None)
                if origin is not None and piece.strip() and linemap[-1] is None:
                    linemap[-1] = self.source.line_of(origin + off)
                off += len(piece) + 1
            text += chunk
        return text, linemap


def split_args(toks, a, b):
    """split toks[a:b] at top-level commas -> list of token lists"""
    out = []
    cur = []
    i = a
    while i < b:
        t = toks[i]
        if t.kind == "punct" and t.text in OPEN:
            j = match_close(toks, i)
            cur.extend(toks[i:j + 1])
            i = j + 1
            continue
        if t.kind == "punct" and t.text == ",":
            out.append(cur)
            cur = []
        else:
            cur.append(t)
        i += 1
    if cur:
        out.append(cur)
    return out
