"""Rust lexer and item locator used by the extractor (engine V) and by the Kani injector (engine K).

Nothing here interprets Rust semantics: it tokenises (comments, nested block comments, raw/byte
strings, char literals vs lifetimes), matches delimiters, and finds `impl` blocks and `fn` items.
"""
import re


class LexError(Exception):
    pass


class Tok:
    __slots__ = ("kind", "text", "start", "end")

    def __init__(s, kind, text, start, end):
        s.kind, s.text, s.start, s.end = kind, text, start, end

    def __repr__(s):
        return f"{s.kind}:{s.text!r}"


IDENT = re.compile(r"(r#)?[A-Za-z_][A-Za-z0-9_]*")
NUM = re.compile(r"[0-9][0-9A-Za-z_]*(\.[0-9][0-9A-Za-z_]*)?")
RAWSTR = re.compile(r'(b?r)(#*)"')
CHARLIT = re.compile(r"b?'(\\x[0-9a-fA-F]{2}|\\u\{[0-9a-fA-F_]+\}|\\.|[^'\\])'")
LIFETIME = re.compile(r"'[A-Za-z_][A-Za-z0-9_]*")
# multi-char puncts we keep together (so that `->`, `=>`, `::`, `..=` are single tokens)
PUNCT3 = ("..=", "...", "<<=", ">>=")
PUNCT2 = ("->", "=>", "::", "==", "!=", "<=", ">=", "&&", "||", "+=", "-=", "*=", "/=", "%=", "^=", "&=", "|=", "..")


def lex(src, keep_comments=False):
    toks = []
    i = 0
    n = len(src)
    while i < n:
        c = src[i]
        if c.isspace():
            i += 1
            continue
        if src.startswith("//", i):
            j = src.find("\n", i)
            j = n if j < 0 else j
            if keep_comments:
                toks.append(Tok("comment", src[i:j], i, j))
            i = j
            continue
        if src.startswith("/*", i):
            depth = 1
            j = i + 2
            while j < n and depth:
                if src.startswith("/*", j):
                    depth += 1
                    j += 2
                elif src.startswith("*/", j):
                    depth -= 1
                    j += 2
                else:
                    j += 1
            if depth:
                raise LexError("unterminated block comment")
            if keep_comments:
                toks.append(Tok("comment", src[i:j], i, j))
            i = j
            continue
        if c in "br":
            m = RAWSTR.match(src, i)
            if m and (i == 0 or not (src[i - 1].isalnum() or src[i - 1] == "_")):
                hashes = m.group(2)
                j = src.find('"' + hashes, m.end())
                if j < 0:
                    raise LexError("unterminated raw string")
                j = j + 1 + len(hashes)
                toks.append(Tok("str", src[i:j], i, j))
                i = j
                continue
        if c == '"' or (c == "b" and i + 1 < n and src[i + 1] == '"'):
            j = i + (2 if c == "b" else 1)
            while j < n and src[j] != '"':
                j += 2 if src[j] == "\\" else 1
            if j >= n:
                raise LexError("unterminated string")
            j += 1
            toks.append(Tok("str", src[i:j], i, j))
            i = j
            continue
        if c == "'" or (c == "b" and i + 1 < n and src[i + 1] == "'"):
            m = CHARLIT.match(src, i)
            if m:
                toks.append(Tok("char", m.group(0), i, m.end()))
                i = m.end()
                continue
            m = LIFETIME.match(src, i)
            if m:
                toks.append(Tok("lifetime", m.group(0), i, m.end()))
                i = m.end()
                continue
            raise LexError(f"bad quote at {i}")
        m = IDENT.match(src, i)
        if m:
            toks.append(Tok("ident", m.group(0), i, m.end()))
            i = m.end()
            continue
        m = NUM.match(src, i)
        if m:
            # `0..5` must not swallow the range operator
            text = m.group(0)
            if "." in text and src.startswith("..", i + text.index(".")):
                text = text[: text.index(".")]
            toks.append(Tok("num", text, i, i + len(text)))
            i += len(text)
            continue
        for p in PUNCT3:
            if src.startswith(p, i):
                toks.append(Tok("punct", p, i, i + 3))
                i += 3
                break
        else:
            for p in PUNCT2:
                if src.startswith(p, i):
                    toks.append(Tok("punct", p, i, i + 2))
                    i += 2
                    break
            else:
                toks.append(Tok("punct", c, i, i + 1))
                i += 1
    return toks


OPEN = {"(": ")", "[": "]", "{": "}"}
CLOSE = {")", "]", "}"}


def match_close(toks, i, hi=None):
    """toks[i] is an opener; return index of the matching closer."""
    depth = 0
    hi = len(toks) if hi is None else hi
    for j in range(i, hi):
        t = toks[j]
        if t.kind == "punct":
            if t.text in OPEN:
                depth += 1
            elif t.text in CLOSE:
                depth -= 1
                if depth == 0:
                    return j
    raise LexError("unbalanced delimiters")


def find_impls(toks):
    """list of (type_name, trait_name|None, body_open_idx, body_close_idx)."""
    out = []
    i = 0
    while i < len(toks):
        t = toks[i]
        if t.kind == "ident" and t.text == "impl" and (i == 0 or toks[i - 1].text not in ("->", ":", "&", "<", ",", "(", "dyn")):
            j = i + 1
            names = []
            angle = 0
            ok = True
            while j < len(toks) and not (toks[j].kind == "punct" and toks[j].text == "{" and angle <= 0):
                tj = toks[j]
                if tj.kind == "punct":
                    if tj.text == "<":
                        angle += 1
                    elif tj.text == ">":
                        angle -= 1
                    elif tj.text == ">=":  # `impl<T>=`… cannot happen; ignore
                        pass
                    elif tj.text in (";",) and angle <= 0:
                        ok = False
                        break
                    elif tj.text in ("(", "["):
                        j = match_close(toks, j)
                if tj.kind == "ident" and angle == 0:
                    names.append(tj.text)
                j += 1
            if not ok or j >= len(toks):
                i += 1
                continue
            k = match_close(toks, j)
            trait = None
            ty = None
            if "where" in names:
                names = names[: names.index("where")]
            if "for" in names:
                p = names.index("for")
                trait = names[p - 1] if p else None
                ty = names[-1] if p + 1 < len(names) else None
            else:
                ty = names[-1] if names else None
            out.append((ty, trait, j, k))
            i = j + 1
            continue
        i += 1
    return out


def find_fn(toks, name, lo=0, hi=None, nth=0):
    """return (fn_kw_idx, body_open_idx, body_close_idx) of `fn name` within toks[lo:hi]."""
    hi = len(toks) if hi is None else hi
    i = lo
    seen = 0
    while i < hi - 1:
        t = toks[i]
        if t.kind == "ident" and t.text == "fn" and toks[i + 1].kind == "ident" and toks[i + 1].text == name:
            j = i
            pd = 0
            found = None
            while j < hi:
                tj = toks[j]
                if tj.kind == "punct":
                    if tj.text in "([":
                        pd += 1
                    elif tj.text in ")]":
                        pd -= 1
                    elif tj.text == "{" and pd == 0:
                        found = j
                        break
                    elif tj.text == ";" and pd == 0:
                        break
                j += 1
            if found is not None:
                if seen == nth:
                    return (i, found, match_close(toks, found))
                seen += 1
                i = found
        i += 1
    return None


def locate(toks, qual):
    """qual: `name`, `Type::name` or `Trait for Type::name`. Returns (fn_idx, open_idx, close_idx) or None."""
    if qual.startswith("::"):
        # `::name`: the free function at the top level of the file (not a method of the same name inside an impl)
        name = qual[2:]
        i = 0
        while i < len(toks) - 1:
            t = toks[i]
            if t.kind == "punct" and t.text == "{":
                i = match_close(toks, i) + 1
                continue
            if t.kind == "ident" and t.text == "fn" and toks[i + 1].kind == "ident" and toks[i + 1].text == name:
                return find_fn(toks, name, i, len(toks))
            i += 1
        return None
    if "::" in qual:
        left, name = qual.rsplit("::", 1)
        trait = None
        ty = left
        if " for " in left:
            trait, ty = [x.strip() for x in left.split(" for ")]
        for (t, tr, a, b) in find_impls(toks):
            if t == ty and (trait is None or tr == trait):
                r = find_fn_shallow(toks, name, a, b)
                if r:
                    return r
        return None
    return find_fn(toks, qual)


def find_fn_shallow(toks, name, a, b):
    """find `fn name` directly inside the block toks[a]..toks[b] (depth 1 only)."""
    i = a + 1
    while i < b:
        t = toks[i]
        if t.kind == "punct" and t.text == "{":
            i = match_close(toks, i) + 1
            continue
        if t.kind == "ident" and t.text == "fn" and toks[i + 1].kind == "ident" and toks[i + 1].text == name:
            return find_fn(toks, name, i, b)
        i += 1
    return None


def param_names(toks, fn_idx, open_idx):
    """names of the parameters in a signature (self included), textual."""
    j = fn_idx
    while toks[j].text != "(":
        if toks[j].text == "<":
            # skip generics
            d = 0
            while True:
                if toks[j].text == "<":
                    d += 1
                elif toks[j].text == ">":
                    d -= 1
                    if d == 0:
                        break
                j += 1
        j += 1
    k = match_close(toks, j)
    names = []
    depth = 0
    seg = []
    segs = []
    for t in toks[j + 1:k]:
        if t.kind == "punct" and t.text in "([{<":
            depth += 1
        elif t.kind == "punct" and t.text in ")]}>":
            depth -= 1
        if t.kind == "punct" and t.text == "," and depth == 0:
            segs.append(seg)
            seg = []
        else:
            seg.append(t)
    if seg:
        segs.append(seg)
    for seg in segs:
        texts = [t.text for t in seg]
        if "self" in texts and ":" not in texts:
            names.append("self")
            continue
        # pattern before the first top-level ':'
        nm = []
        for t in seg:
            if t.kind == "punct" and t.text == ":":
                break
            if t.kind == "ident" and t.text not in ("mut", "ref"):
                nm.append(t.text)
        names.append("_".join(nm) if nm else "_")
    return names
