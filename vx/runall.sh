#!/bin/sh
# run every claimed check (quick tier by default) on /repo as it is; used before committing evidence
tier="${1:-quick}"
cd /verif
fail=0
for p in $(python3 -c "import json; print(' '.join(sorted(json.load(open('props.json')))))"); do
  ./check $p --tier $tier > /tmp/runall_$p.out 2>&1; rc=$?
  tail -1 /tmp/runall_$p.out | cut -c1-200
  if [ $rc -ne 0 ]; then fail=1; echo "  ^^ exit $rc"; fi
done
python3 /verif/vx/losthints.py | tail -3 || fail=1
exit $fail
