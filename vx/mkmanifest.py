#!/usr/bin/env python3
"""regenerates MANIFEST.json from props.json (claimed properties) and not_applicable.json"""
import json, os
V = os.path.dirname(os.path.dirname(os.path.abspath(__file__)))
props = json.load(open(os.path.join(V, "props.json")))
na = json.load(open(os.path.join(V, "not_applicable.json")))
checks = []
for pid in sorted(props):
    p = props[pid]
    checks.append({
        "property_id": pid,
        "quick_cmd": f"./check {pid} --tier quick",
        "thorough_cmd": f"./check {pid} --tier thorough",
        "evidence_file": f"/verif/evidence/{pid}.json",
        "replay_cmd_template": f"./check {pid} --replay {{path}}",
        "engine": "verus+kani",
        "level_claimed": {
            "category": "proof",
            "text": p["level_text"],
            "design_ref": p.get("design_ref", "DESIGN.md §4 " + pid + " (plan), §9.6 (as built), §10 (seeded changes)"),
        },
        "level_note": p["level_note"],
        "technique": p.get("technique", "contract-based deductive verification: Verus (SMT) on function bodies mechanically extracted from /repo on every run, against hand-written pre/postconditions, invariants and lemmas; Kani function-level harnesses in place as counterexample producer"),
    })
m = {
    "version": 1,
    "setup_cmd": "mkdir -p build evidence && python3 vx/selfcheck.py",
    "hooks": {
        "guard": "kani",
        "enable": "no source hooks are committed to /repo: Verus contracts live in /verif/units and are spliced around function bodies re-extracted from /repo's working tree on every run; Kani contracts/harnesses (/verif/kani) are injected under #[cfg(kani)] into a scratch copy of the working tree made by the check itself",
        "baseline_off_cmd": "cd /repo && cargo test --workspace --no-fail-fast --offline",
        "source_commits": [],
        "add_only": True,
    },
    "engines": [
        {"name": "verus", "path": "/verif/vx", "serves_properties": sorted(props), "kind_free_text": "deductive verifier (Verus 0.2026.09.13 / Z3) on mechanically extracted real function bodies; extractor + splicer + runner in vx/"},
        {"name": "kani", "path": "/verif/kani", "serves_properties": sorted(p for p in props if props[p].get("kani")), "kind_free_text": "Kani 0.68 / CBMC on the real crates (scratch copy), loop-free full-domain harnesses = complete proofs, bounded ones labelled bounded; produces concrete counterexamples replayed with cargo kani playback"},
    ],
    "checks": checks,
    "not_applicable": na,
    "notes": "exit codes of ./check: 0 all obligations discharged, 1 VIOLATION, 2 UNDECIDED (lost anchor / unsupported construct / resource limit / vacuity canary) — never an alarm. Known findings: /verif/known_findings.json.",
}
json.dump(m, open(os.path.join(V, "MANIFEST.json"), "w"), indent=1)
print("MANIFEST.json:", len(checks), "checks,", len(na), "not applicable")
