#!/usr/bin/env python3
"""setup-time sanity check: tools present, lexer round-trips a real file"""
import os, shutil, sys
sys.path.insert(0, os.path.dirname(os.path.abspath(__file__)))
from lex import lex
ok = True
for tool in ("verus",):
    if shutil.which(tool) is None:
        print("missing tool:", tool); ok = False
src = open("/repo/ant-networking/src/record_store.rs").read() if os.path.exists("/repo/ant-networking/src/record_store.rs") else "fn main(){}"
toks = lex(src)
print("selfcheck: lexer ok,", len(toks), "tokens; verus:", shutil.which("verus"))
sys.exit(0 if ok else 1)
