"""Template splicer: unit template + real bodies from /repo -> one Verus file, line map and function table.

Template directives (all on lines starting with `//@`):

  //@UNIT features_on=a,b features_off=c,d rules=log,inspect,cfg,await,opaque,spawn
  //@TAG props=C06 [known=F9] [name=...]          tags the next `fn` item written in the template (lemmas)
  //@BODY src=<path in /repo> fn=<Type::name> props=C01,C10 [known=Fxx] [rules=+pieces,-opaque]
  //@ sub: <pattern>  =>  <replacement>            (any number of matches, also none; `sub*:` one or more; `subN:` exactly N)
  //@ pre: <text inserted after the opening brace>
  //@ post: <text inserted before the closing brace>
  //@ loopK.spec: <text inserted between loop header and its `{`>   (invariant/decreases clauses)
  //@ loopK.via: F                                 `for P in E {` -> `let __vK = F(E); for P in __itK: __vK.iter() {`
  //@ loopK.iter: NAME                             `for P in E {` -> `for P in NAME: E {`
  //@ loopK.top: <text inserted after the loop's `{`>
  //@ loopK.end: <text inserted before the loop's `}`>
  //@ loopK.after: <text inserted after the loop's `}`>
  //@ before "<stmt prefix>"[#n]: <text>           inserted before the n-th statement starting with the prefix
  //@ after "<stmt prefix>"[#n]: <text>
  //@ closureK.sig: <text replacing the closure's `|params|` (and return type)>; a non-block body is wrapped in braces
  //@ params: a, b, c                              expected parameter names of the real signature (default: taken from the template header)
  //@| continuation of the previous directive's value
  //@END
"""
import os
import re
from extract import Source, Body, LostAnchor
from lex import lex, match_close

DEFAULT_RULES = ["log", "inspect", "cfg", "await", "opaque", "spawn"]


class TemplateError(Exception):
    pass


def parse_kv(s):
    out = {}
    for m in re.finditer(r'(\w+)=("([^"]*)"|\S+)', s):
        out[m.group(1)] = m.group(3) if m.group(3) is not None else m.group(2)
    return out


class FnInfo:
    def __init__(self, name, props, known, kind):
        self.name = name
        self.props = props
        self.known = known
        self.kind = kind          # 'body' (real body spliced) or 'lemma' (written in template)
        self.simple = name.split("::")[-1]
        self.start = None         # first generated line (1-based)
        self.end = None
        self.header_start = None
        self.src = None
        self.qual = None
        self.src_first_line = None
        self.report = []
        self.body_lines = (None, None)
        self.linemap = {}         # generated line -> source line
        self.lost_hints = []
        self.lost = None


def apply_directives(body, directives, unit):
    # `${ifdef NAME} … ${endif}` inside a directive's text: kept only when the real body binds a local called NAME (`let [mut] NAME`).
    # For invariants and hints about a variable that a repair introduced: on a tree without the repair the clause is dropped, and
    # the function is judged against its contract as it stands instead of losing its anchor
    locals_bound = set()
    bt = body.toks
    for q in range(body.open, body.close - 1):
        if bt[q].kind == "ident" and bt[q].text == "let":
            q2 = q + 1
            if bt[q2].text == "mut":
                q2 += 1
            if bt[q2].kind == "ident":
                locals_bound.add(bt[q2].text)
    def _ifdef(v):
        return re.sub(r"\$\{ifdef (\w+)\}(.*?)\$\{endif\}", lambda m_: m_.group(2) if m_.group(1) in locals_bound else "", v, flags=re.S)
    directives = [(k_, _ifdef(v_)) for (k_, v_) in directives]
    rules = list(unit["rules"])
    for (key, val) in directives:
        if key == "rules":
            for r in val.split(","):
                r = r.strip()
                if r.startswith("-"):
                    if r[1:] in rules:
                        rules.remove(r[1:])
                elif r.startswith("+"):
                    rules.append(r[1:])
    if "cfg" in rules:
        body.rule_cfg_features(features_off=unit["features_off"], features_on=unit["features_on"])
        body.rule_cfg_fields(features_off=unit["features_off"], features_on=unit["features_on"])
        body.rule_cfg_macro(features_on=unit["features_on"], features_off=unit["features_off"])
    if "log" in rules:
        body.rule_logging()
    if "inspect" in rules:
        body.rule_inspect_err_logging()
    if "await" in rules:
        body.rule_await()
    if "pieces" in rules:
        body.rule_format_pieces()
    if "opaque" in rules:
        body.rule_opaque_macros()
    if "spawn" in rules:
        body.rule_spawn_inline()
    if "vecchain" in rules:
        body.rule_vec_chain()
    body.rule_closure_underscore()
    body.rule_for_continue()
    toks = body.toks
    loops = None
    closures = None
    if "usub" in rules or "-usub" not in [r.strip() for (k_, v_) in directives if k_ == "rules" for r in v_.split(",")]:
        for (key, val) in unit["subs"]:
            body.sub(key, val, count="?")
        own = {v_.split("~~>" if "~~>" in v_ else "=>", 1)[0].strip() for (k_, v_) in directives if re.fullmatch(r"m2f([*?]|\d+)?", k_)}
        for (meth, repl) in unit.get("m2fs", []):
            if meth not in own:
                body.method_to_fn(meth, repl, count="?")
    for (key, val) in directives:
        if key == "rules" or key == "params":
            continue
        m = re.fullmatch(r"sub([*?]|\d+)?", key)
        if m:
            sep = "~~>" if "~~>" in val else "=>"
            if sep not in val:
                raise TemplateError(f"sub without =>: {val}")
            pat, repl = val.split(sep, 1)
            cnt = m.group(1)
            cnt = "?" if cnt is None else (cnt if cnt in "*?" else int(cnt))
            body.sub(pat.strip(), repl.strip(), count=cnt)
            continue
        m = re.fullmatch(r"m2f([*?]|\d+)?", key)
        if m:
            meth, repl = val.split("~~>" if "~~>" in val else "=>", 1)
            cnt = m.group(1)
            cnt = "?" if cnt is None else (cnt if cnt in "*?" else int(cnt))
            body.method_to_fn(meth.strip(), repl.strip(), count=cnt)
            continue
        if key == "frag":
            m2 = re.fullmatch(r'\s*"((?:[^"\\]|\\.)*)"\s*\.\.\s*"((?:[^"\\]|\\.)*)"\s*', val)
            if not m2:
                raise TemplateError(f"bad frag directive: {val}")
            body.fragment(m2.group(1).replace('\\"', '"'), m2.group(2).replace('\\"', '"'))
            continue
        if key in ("tail.before", "tail.bind"):
            from extract import stmt_spans
            spans = stmt_spans(toks, body.open, body.close)
            if not spans or toks[spans[-1][1]].text == ";":
                body.lost_hints.append(f"{body.qual}: no tail expression")
                continue
            ts, te = spans[-1]
            if key == "tail.before":
                body.insert(toks[ts].start, val + "\n")
            else:
                name, _, hint = val.partition("|")
                body.insert(toks[ts].start, f"let {name.strip()} = ")
                body.insert(toks[te].end, f";\n{hint.strip()}\n{name.strip()}")
            continue
        if key == "pre":
            body.insert(toks[body.open].end, "\n" + val + "\n")
            continue
        if key == "post":
            body.insert(toks[body.close].start, "\n" + val + "\n")
            continue
        m = re.fullmatch(r"loop(\d+)\.(spec|via|viaval|viawhile|iter|top|end|after|before)(\?)?", key)
        if m:
            if loops is None:
                loops = body.loops()
            k = int(m.group(1))
            if k >= len(loops) and m.group(3):
                continue        # `loopK.x?`: a loop a repair introduced; without it the body is judged as it stands
            if k >= len(loops):
                raise LostAnchor(f"{body.qual}: loop #{k} not found ({len(loops)} loops)")
            kw, lo, lc = loops[k]
            what = m.group(2)
            if what == "spec":
                body.insert(toks[lo].start, "\n" + val + "\n")
            elif what == "top":
                body.insert(toks[lo].end, "\n" + val + "\n")
            elif what == "end":
                body.insert(toks[lc].start, "\n" + val + "\n")
            elif what == "after":
                body.insert(toks[lc].end, "\n" + val + "\n")
            elif what == "before":
                body.insert(toks[kw].start, val + "\n")
            elif what in ("via", "iter", "viaval", "viawhile"):
                if toks[kw].text != "for":
                    raise LostAnchor(f"{body.qual}: loop #{k} is not a for loop")
                j = kw + 1
                while toks[j].text != "in":
                    if toks[j].text in ("(", "["):
                        j = match_close(toks, j)
                    j += 1
                expr = body.src[toks[j + 1].start:toks[lo - 1].end]
                pat = body.src[toks[kw + 1].start:toks[j - 1].end]
                ms = re.fullmatch(r"(\S+)\s+strip=(\S+)", val.strip())
                if ms:
                    # `loopK.via: F strip=.values()`: the loop runs over `<E>.values()`; F is handed `&<E>` (the collection itself, so that
                    # F's contract can speak about the map). A loop that no longer has this shape is a lost anchor.
                    val = ms.group(1)
                    if not re.sub(r"\s+", "", expr).endswith(ms.group(2)):
                        raise LostAnchor(f"{body.qual}: loop #{k} does not iterate over `…{ms.group(2)}`")
                    cut = expr.rstrip()
                    want = ms.group(2)
                    # drop the suffix token by token (whitespace-insensitive)
                    q = lo - 1
                    acc = ""
                    while q > j and re.sub(r"\s+", "", acc) != want:
                        acc = toks[q].text + acc
                        q -= 1
                    expr = "&" + body.src[toks[j + 1].start:toks[q].end]
                if what == "via":
                    if expr.strip().endswith(".iter()"):
                        expr = "&" + expr.strip()[:-len(".iter()")]
                    new = f"let __v{k} = {val.strip()}({expr}); for {pat} in __it{k}: __v{k}.iter() "
                elif what == "viawhile":
                    # `for P in E {` -> `let __vK = F(E); let mut __iK: usize = 0; while __iK < __vK.len() <spec> { let P = __take(&__vK, __iK); __iK = __iK + 1;`
                    # (Verus for-loops have no `continue`; a while loop over an index does). `__take` yields a ghost-equal copy of element i.
                    new = f"let __v{k} = {val.strip()}({expr}); let mut __i{k}: usize = 0; while __i{k} < __v{k}.len() "
                    body.insert(toks[lo].end, f" let {pat} = __take(&__v{k}, __i{k}); __i{k} = __i{k} + 1;", order=-10**11)
                elif what == "viaval":
                    # by-value iteration (ranges): `for P in A..=B {` -> `let __vK = F(A, B); for __rK in __itK: __vK.iter() { let P = *__rK;`
                    ex = expr
                    d = 0
                    for q in range(j + 1, lo):
                        tq = toks[q]
                        if tq.text in ("(", "[", "{"):
                            d += 1
                        elif tq.text in (")", "]", "}"):
                            d -= 1
                        elif d == 0 and tq.text in ("..=", ".."):
                            ex = body.src[toks[j + 1].start:toks[q - 1].end] + ", " + body.src[toks[q + 1].start:toks[lo - 1].end]
                            break
                    new = f"let __v{k} = {val.strip()}({ex}); for __r{k} in __it{k}: __v{k}.iter() "
                    body.insert(toks[lo].end, f" let {pat} = *__r{k};")
                else:
                    new = f"for {pat} in {val.strip()}: {expr} "
                body.edit(toks[kw].start, toks[lo].start, new, "R8-loop", f"for {pat} in {expr}  =>  {new}")
            continue
        m = re.fullmatch(r'(before|after)\s+"((?:[^"\\]|\\.)*)"#\*', key)
        if m:
            # `before "stmt"#*`: at EVERY statement that starts with these tokens (a refusal-point assertion has to guard every
            # place the refusal is made from, also one a change adds); at least one has to be there
            nth = 0
            while True:
                try:
                    s, e = body.find_stmt(m.group(2).replace('\\"', '"'), nth)
                except LostAnchor as ex:
                    if nth == 0:
                        body.lost_hints.append(str(ex))
                    break
                if m.group(1) == "before":
                    body.insert(toks[s].start, val + "\n")
                else:
                    body.insert(toks[e].end, "\n" + val + "\n")
                nth += 1
            continue
        m = re.fullmatch(r'(before|after)\s+"((?:[^"\\]|\\.)*)"(?:#(\d+))?', key)
        if m:
            try:
                s, e = body.find_stmt(m.group(2).replace('\\"', '"'), int(m.group(3) or 0))
            except LostAnchor as ex:
                # a proof hint whose anchor statement is gone is skipped; if the proof then fails the
                # function is reported UNDECIDED, never as a violation (see run.py)
                body.lost_hints.append(str(ex))
                continue
            if m.group(1) == "before":
                body.insert(toks[s].start, val + "\n")
            else:
                body.insert(toks[e].end, "\n" + val + "\n")
            continue
        m = re.fullmatch(r"closure(\d+)\.(sig|sigd)(\?)?", key)
        ma = re.fullmatch(r'closure@"((?:[^"\\]|\\.)*)"\.(sig|sigd)(\?)?', key) if not m else None
        if ma:
            # `closure@"anchor".sig`: the first closure that starts at or after the first occurrence of the anchor's tokens —
            # independent of how many closures come before it (a reordering or an added closure does not shift it)
            if closures is None:
                closures = body.closures()
            apat = [t.text for t in lex(ma.group(1))]
            pos = None
            for q in range(body.open, body.close - len(apat) + 1):
                if [t.text for t in toks[q:q + len(apat)]] == apat:
                    pos = q
                    break
            k = None
            if pos is not None:
                for ci, (st_, pe_, bs_, be_) in enumerate(closures):
                    if st_ >= pos:
                        k = ci
                        break
            if k is None:
                if ma.group(3):
                    continue
                raise LostAnchor(f"{body.qual}: no closure after `{ma.group(1)}`")
            m = re.fullmatch(r"closure(\d+)\.(sig|sigd)(\?)?", f"closure{k}.{ma.group(2)}")
        if m:
            if closures is None:
                closures = body.closures()
            k = int(m.group(1))
            if k >= len(closures) and m.group(3):
                continue        # `closureK.sig?`: a closure a repair introduced; without it the body is judged as it stands
            if k >= len(closures):
                raise LostAnchor(f"{body.qual}: closure #{k} not found ({len(closures)} closures)")
            st, pe, bs, be = closures[k]
            body.edit(toks[st].start, toks[bs].start, val + " ", "R7-closure", body.text(st, bs - 1) + "  =>  " + val)
            bind = ""
            if m.group(2) == "sig":
                # R7c: the contract names the parameters its way; when the real closure calls a plain parameter something else
                # (a rename), the real name is bound from the contract's at the start of the body
                ps0 = st + 1 if toks[st].text == "move" else st
                if toks[ps0].text == "|":
                    from extract import split_args as _sa
                    real_parts = _sa(toks, ps0 + 1, pe)
                    mh = re.match(r"\s*(?:move\s+)?\|(.*?)\|\s*(?:->|$|\{|[^|])", val, re.S)
                    dnames = []
                    if mh:
                        depth_ = 0
                        cur_ = ""
                        segs_ = []
                        for ch in mh.group(1):
                            if ch in "(<[":
                                depth_ += 1
                            elif ch in ")>]":
                                depth_ -= 1
                            if ch == "," and depth_ == 0:
                                segs_.append(cur_)
                                cur_ = ""
                            else:
                                cur_ += ch
                        if cur_.strip():
                            segs_.append(cur_)
                        dnames = [sg.split(":")[0].strip() for sg in segs_]
                    if len(dnames) == len(real_parts):
                        for dn, pt in zip(dnames, real_parts):
                            if len(pt) >= 1 and pt[0].kind == "ident" and (len(pt) == 1 or pt[1].text == ":") and pt[0].text not in ("_", "mut", "ref") and re.fullmatch(r"[A-Za-z_]\w*", dn) and pt[0].text != dn and not pt[0].text.startswith("_"):
                                bind += f"let {pt[0].text} = {dn}; "
                        if bind:
                            body.report.append(("R7c-closure-param-rename", "closure parameter(s) renamed in the source: " + bind.strip()))
            if m.group(2) == "sigd":
                # `sigd`: the contract names the parameters `__p` (one) or `__p0, __p1, ..` (several); the closure's ORIGINAL
                # parameter patterns are kept and bound from them at the start of the body: `let <pattern> = __p;`
                ps = st + 1 if toks[st].text == "move" else st
                pat = body.src[toks[ps].end:toks[pe].start].strip() if toks[ps].text == "|" else ""
                from extract import split_args
                parts = split_args(toks, ps + 1, pe) if toks[ps].text == "|" else []
                if len(parts) <= 1:
                    bind = f"let {pat} = __p; "
                else:
                    bind = " ".join(f"let {body.src[pt[0].start:pt[-1].end]} = __p{k};" for k, pt in enumerate(parts)) + " "
            if toks[bs].text != "{":
                body.insert(toks[bs].start, "{ " + bind, order=-10**12)
                body.insert(toks[be].end, " }")
            elif bind:
                body.insert(toks[bs].end, " " + bind)
            continue
        raise TemplateError(f"unknown directive `{key}`")


def splice(template_path, repo_root, canary=False, quarantine=(), inline=None):
    """returns (generated_text, fns: list[FnInfo], unit_meta)"""
    lines = open(template_path, encoding="utf-8").read().split("\n")
    unit = {"rules": list(DEFAULT_RULES), "features_on": (), "features_off": ("open-metrics", "loud"), "subs": []}
    out = []          # generated lines
    fns = []
    pending_tag = None
    inline_reports = []
    i = 0
    n = len(lines)

    def emit(line):
        out.append(line)

    while i < n:
        ln = lines[i]
        s = ln.strip()
        if s.startswith("//@UNIT"):
            kv = parse_kv(s[7:])
            if "rules" in kv:
                unit["rules"] = [r for r in kv["rules"].split(",") if r]
            if "features_on" in kv:
                unit["features_on"] = tuple(kv["features_on"].split(","))
            if "features_off" in kv:
                unit["features_off"] = tuple(kv["features_off"].split(","))
            if "rlimit" in kv:
                unit["rlimit"] = int(kv["rlimit"])
            if "own_iter" in kv:
                unit["own_iter"] = tuple(x for x in kv["own_iter"].split(",") if x)
            i += 1
            continue
        if s.startswith("//@USUB"):
            pat, repl = s[7:].split("=>", 1)
            unit["subs"].append((pat.strip(), repl.strip()))
            i += 1
            continue
        if s.startswith("//@UM2F"):
            # unit-wide method-call-to-function-call rewriting (R5), optional everywhere: std methods the verifier has no
            # specification for, so that an edit which starts using one still type-checks against the stand-ins
            meth, repl = s[7:].split("=>", 1)
            unit.setdefault("m2fs", []).append((meth.strip(), repl.strip()))
            i += 1
            continue
        if s.startswith("//@CONST"):
            # the value of a constant comes from the real source: the next template line `… const NAME: T = V;` gets the real
            # initialiser when that is a literal expression (numbers, arithmetic, casts); a constant that can no longer be found
            # is a lost anchor of the unit. `opaque=ok`: a non-literal initialiser (e.g. `K_VALUE.get()`) keeps the template's value
            kv = parse_kv(s[8:])
            i += 1
            decl = lines[i]
            cpath = os.path.join(repo_root, kv["src"])
            if not os.path.exists(cpath):
                raise LostAnchor(f"source file {kv['src']} missing (constant {kv['name']})")
            csrc = Source.get(cpath)
            ctoks = csrc.toks
            found = None
            for q in range(len(ctoks) - 3):
                if ctoks[q].kind == "ident" and ctoks[q].text == "const" and ctoks[q + 1].text == kv["name"] and ctoks[q + 2].text == ":":
                    e = q + 3
                    while ctoks[e].text != "=":
                        e += 1
                    z = e
                    while ctoks[z].text != ";":
                        z += 1
                    found = (e + 1, z, csrc.line_of(ctoks[q].start))
                    break
            if found is None:
                raise LostAnchor(f"constant {kv['name']} not found in {kv['src']}")
            itoks = ctoks[found[0]:found[1]]
            literal = bool(itoks) and all(t.kind in ("number", "num", "int", "literal") or re.fullmatch(r"[0-9][0-9_a-zA-Z]*", t.text) or t.text in ("*", "+", "-", "/", "(", ")", "<<", "as", "usize", "u64", "u32", "u16", "u8", "u128") for t in itoks)
            if literal:
                init = csrc.src[itoks[0].start:itoks[-1].end]
                decl2 = re.sub(r"=\s*[^;]+;", lambda m_: "= " + init + ";", decl, count=1)
                unit.setdefault("consts", []).append(f"{kv['name']} = {init} ({kv['src']}:{found[2]})")
            elif kv.get("opaque") == "ok":
                decl2 = decl
                unit.setdefault("consts", []).append(f"{kv['name']}: non-literal initialiser in {kv['src']}:{found[2]}, the template's value is used")
            else:
                raise LostAnchor(f"constant {kv['name']} in {kv['src']} no longer has a literal initialiser")
            emit(decl2)
            i += 1
            continue
        if s.startswith("//@TAG"):
            pending_tag = parse_kv(s[6:])
            i += 1
            continue
        if s.startswith("//@BODY"):
            kv = parse_kv(s[7:])
            directives = []
            i += 1
            while i < n and not lines[i].strip().startswith("//@END"):
                d = lines[i].strip()
                if d.startswith("//@|"):
                    if not directives:
                        raise TemplateError("continuation without directive")
                    directives[-1] = (directives[-1][0], directives[-1][1] + "\n" + d[4:])
                elif d.startswith("//@"):
                    m = re.match(r"//@\s*((?:before|after)\s+\"(?:[^\"\\]|\\.)*\"(?:#(?:\d+|\*))?|closure@\"(?:[^\"\\]|\\.)*\"\.(?:sigd|sig)\??|[\w.*?]+(?:\([^)]*\))?)\s*:(.*)$", d, re.S)
                    if not m:
                        raise TemplateError(f"bad directive line: {d}")
                    directives.append((m.group(1), m.group(2).strip()))
                elif d == "":
                    pass
                else:
                    raise TemplateError(f"non-directive line inside @BODY block: {d}")
                i += 1
            i += 1  # skip @END
            # header = lines emitted since the last line that starts an fn item
            h = len(out) - 1
            while h >= 0 and not re.search(r"\bfn\s+\w+", out[h]):
                h -= 1
            if h < 0:
                raise TemplateError(f"@BODY {kv.get('fn')} without a preceding fn header")
            header_text = "\n".join(out[h:])
            m = re.search(r"\bfn\s+(\w+)", out[h])
            tname = m.group(1)
            oname = kv.get("name", kv["fn"].split(" for ")[-1] + ("::" + kv["closure"] if kv.get("closure") else ""))
            lost = None
            body = None
            try:
                if oname in quarantine:
                    raise LostAnchor(quarantine[oname] if isinstance(quarantine, dict) else "quarantined")
                src_path = os.path.join(repo_root, kv["src"])
                if kv["src"].startswith("@cargo/"):
                    # a dependency's source as cargo compiles it (the version is pinned by Cargo.lock; a configuration
                    # obligation of the property checks that pin)
                    import glob
                    hits = sorted(glob.glob(os.path.join(os.path.expanduser("~/.cargo/registry/src"), "*", kv["src"][len("@cargo/"):])))
                    src_path = hits[0] if hits else src_path
                if not os.path.exists(src_path):
                    raise LostAnchor(f"source file {kv['src']} missing")
                src_obj = Source.get(src_path)
                r15 = []
                if inline and inline.get(oname):
                    from inline import inline_helpers
                    src_inl, r15 = inline_helpers(src_obj, kv["fn"], inline[oname])
                    # nested helpers (a helper that calls another helper of the list: `validate` -> `port_count()` -> `bounds()`, seed
                    # C17-13): the result is inlined again, up to three levels, until nothing more is found
                    for _lvl in range(3):
                        try:
                            src_inl2, r15b = inline_helpers(src_inl, kv["fn"], inline[oname])
                        except LostAnchor:
                            break
                        if src_inl2.src == src_inl.src:
                            break
                        src_inl, r15 = src_inl2, r15 + r15b
                    # an inlining that does not leave a well-bracketed file (e.g. a const ARRAY taken for a value to paste) is dropped:
                    # the name stays unknown and only that function is quarantined — not the whole unit (seed C12-11)
                    try:
                        _d = 0
                        for _t in src_inl.toks:
                            if _t.kind == "punct" and _t.text in ("(", "[", "{"):
                                _d += 1
                            elif _t.kind == "punct" and _t.text in (")", "]", "}"):
                                _d -= 1
                        if _d == 0:
                            src_obj = src_inl
                        else:
                            r15 = [("R15-dropped", "inlining left unbalanced delimiters; not applied")]
                    except Exception:
                        r15 = [("R15-dropped", "inlined text does not lex; not applied")]
                body = Body(src_obj, kv["fn"], closure=kv.get("closure"))
                body.report.extend(r15)
                # parameter names must agree with the template header
                htoks = lex(header_text[header_text.index(m.group(0)):])
                from lex import param_names
                hp = param_names(htoks, 0, len(htoks))
                expected = None
                for (k_, v_) in directives:
                    if k_ == "params":
                        expected = [x.strip() for x in v_.split(",") if x.strip()]
                if expected is None:
                    expected = [p for p in hp if not p.startswith("__")]
                renames = []
                if expected != ["*"] and [p for p in body.params] != expected:      # `params: *` (fragments): the real parameter list is not an anchor
                    # R5b: the same number of parameters under other names (self in the same place): the contract keeps its
                    # names and the body gets `let <real name> = <contract name>;` in front — unless fragments / explicit
                    # `params:` are in play, where the names are the anchor
                    real = list(body.params)
                    explicit = any(k_ == "params" for (k_, v_) in directives)
                    if (not explicit and len(real) == len(expected) and all((a == "self") == (b == "self") for a, b in zip(real, expected))
                            and len(set(real)) == len(real) and not (set(real) & set(expected) - {n for n, m_ in zip(real, expected) if n == m_})):
                        renames = [(a, b) for a, b in zip(real, expected) if a != b]
                    else:
                        raise LostAnchor(f"{kv['fn']}: real parameters {body.params} differ from the contract's {expected}")
                apply_directives(body, directives, unit)
                if renames:
                    body.insert(body.toks[body.open].end, " " + " ".join(f"let mut {a} = {b};" for a, b in renames) + " ", "R5b-param-rename", order=-3 * 10 ** 12)
                    body.report.append(("R5b-param-rename", "parameters renamed in the source: " + ", ".join(f"{b} is now {a}" for a, b in renames)))
                text, linemap = body.render()
            except LostAnchor as e:
                # this hole only: the function is emitted with a placeholder body and reported as undecided, so that the
                # other obligations of the unit are still decided (they only use this function's contract)
                lost = str(e)
            if lost is not None:
                info = FnInfo(oname, [p for p in kv.get("props", "").split(",") if p], kv.get("known"), "body")
                info.simple = tname
                info.src = kv["src"]
                info.qual = kv["fn"] + ("::" + kv["closure"] if kv.get("closure") else "")
                info.lost = lost
                info.header_start = h + 1
                info.start = h + 1
                info.report = [("LOST", lost[:200])]
                info.lost_hints = []
                info.src_first_line = None
                first = len(out) + 1
                emit("{ /* QUARANTINED: " + lost.replace("*/", "* /")[:300] + " */ proof { assume(false); } vstd::pervasive::unreached() }")
                info.body_lines = (first, len(out))
                info.end = len(out)
                fns.append(info)
                pending_tag = None
                continue
            info = FnInfo(kv.get("name", kv["fn"].split(" for ")[-1] + ("::" + kv["closure"] if kv.get("closure") else "")), [p for p in kv.get("props", "").split(",") if p], kv.get("known"), "body")
            info.simple = tname
            info.src = kv["src"]
            info.qual = kv["fn"] + ("::" + kv["closure"] if kv.get("closure") else "")
            info.header_start = h + 1
            info.start = h + 1
            info.report = body.report
            info.lost_hints = list(body.lost_hints)
            info.src_first_line = body.first_line
            blines = text.split("\n")
            header_copy = list(out[h:])
            ha = h
            while ha > 0 and out[ha - 1].strip().startswith("#["):      # attributes of the function go with its canary copy
                ha -= 1
            attr_copy = list(out[ha:h])
            first = len(out) + 1
            for k, bl in enumerate(blines):
                emit(bl)
                if k < len(linemap) and linemap[k] is not None:
                    info.linemap[len(out)] = linemap[k]
            info.body_lines = (first, len(out))
            info.end = len(out)
            if canary and not info.known:
                # vacuity canary: a renamed copy of the function that additionally ensures `false`.
                # The original stays, so callers are still checked against the original contract
                # (a canary on the original would make every caller vacuous).
                header_copy[0] = re.sub(r"\bfn\s+" + tname + r"\b", "fn " + tname + "__canary", header_copy[0], count=1)
                for al in attr_copy:
                    emit(al)
                cstart = len(out) + 1
                for hl in header_copy:
                    emit(hl)
                add_false_ensures(out, cstart - 1)
                for bl in blines:
                    emit(bl)
                info.start = cstart
                info.header_start = cstart
                info.end = len(out)
                info.linemap = {}
            fns.append(info)
            pending_tag = None
            continue
        if s.startswith("//@INLINE"):
            # the real body of `fn`, as a block expression, inside a function written in the template (used for relational
            # contracts over two real bodies); `self=NAME` renames the receiver
            kv = parse_kv(s[9:])
            directives = []
            i += 1
            while i < n and not lines[i].strip().startswith("//@END"):
                d = lines[i].strip()
                if d.startswith("//@|"):
                    directives[-1] = (directives[-1][0], directives[-1][1] + "\n" + d[4:])
                elif d.startswith("//@"):
                    m = re.match(r"//@\s*((?:before|after)\s+\"(?:[^\"\\]|\\.)*\"(?:#(?:\d+|\*))?|closure@\"(?:[^\"\\]|\\.)*\"\.(?:sigd|sig)\??|[\w.*?]+(?:\([^)]*\))?)\s*:(.*)$", d, re.S)
                    if not m:
                        raise TemplateError(f"bad directive line: {d}")
                    directives.append((m.group(1), m.group(2).strip()))
                i += 1
            i += 1
            src_path = os.path.join(repo_root, kv["src"])
            if not os.path.exists(src_path):
                raise LostAnchor(f"source file {kv['src']} missing")
            body = Body(Source.get(src_path), kv["fn"], closure=kv.get("closure"))
            if kv.get("self"):
                for t in body.toks[body.open:body.close]:
                    if t.kind == "ident" and t.text == "self":
                        body.edits.append((t.start, t.end, kv["self"], "R5-self"))
                body.report.append(("R5-self", f"receiver `self` named `{kv['self']}` (body inlined into a relational contract)"))
            apply_directives(body, directives, unit)
            text, linemap = body.render()
            inline_reports.append((kv["fn"], kv["src"], body.first_line, body.report, list(body.lost_hints)))
            for bl in text.split("\n"):
                emit(bl)
            continue
        if s.startswith("//@CANARY"):
            if canary:
                emit("assert(false);")
            i += 1
            continue
        if s.startswith("//@") and not s.startswith("//@@"):
            raise TemplateError(f"unknown template directive: {s}")
        emit(ln)
        if pending_tag is not None:
            m = re.search(r"\bfn\s+(\w+)", ln)
            if m:
                info = FnInfo(pending_tag.get("name", m.group(1)), [p for p in pending_tag.get("props", "").split(",") if p],
                              pending_tag.get("known"), "lemma")
                info.simple = m.group(1)
                info.start = len(out)
                info.header_start = len(out)
                # find the end: the first later line that is exactly `}` at the indentation of the fn line
                indent = re.match(r"\s*", ln).group(0)
                j = i + 1
                while j < n and not (lines[j].startswith(indent + "}") and lines[j].strip() == "}"):
                    j += 1
                if j >= n:
                    raise TemplateError(f"cannot find end of tagged fn {m.group(1)}")
                info._template_end = j
                info._open_pending = True
                fns.append(info)
                pending_tag = None
        # close lemma spans / canary for lemmas
        for f in fns:
            if f.kind == "lemma" and getattr(f, "_template_end", None) == i:
                f.end = len(out)
                if inline_reports:
                    f.src = "; ".join(f"{sp}:{ln} {q}" for (q, sp, ln, rp, lh) in inline_reports)
                    f.qual = "relational: " + " + ".join(q for (q, sp, ln, rp, lh) in inline_reports)
                    for (q, sp, ln, rp, lh) in inline_reports:
                        f.report += [(r0, f"[{q}] {o}") for (r0, o) in rp]
                        f.lost_hints += lh
                    f.kind = "body"
                    inline_reports = []
        if fns and fns[-1].kind == "lemma" and getattr(fns[-1], "_open_pending", False) and s == "{" :
            fns[-1]._open_pending = False
            if canary and not fns[-1].known:
                out.pop()
                add_false_ensures(out, fns[-1].header_start - 1)
                emit(ln)
        i += 1
    return "\n".join(out) + "\n", fns, unit


def add_false_ensures(out, h):
    """canary: make the function whose header starts at out[h] additionally ensure `false`"""
    last = None
    for k in range(h, len(out)):
        code = out[k].split("//")[0]
        for m in re.finditer(r"\bensures\b", code):
            last = (k, m.end())
    if last is None:
        out.append("    ensures false,")
    else:
        k, e = last
        out[k] = out[k][:e] + " false," + out[k][e:]
