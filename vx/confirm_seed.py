#!/usr/bin/env python3
"""confirm a seeded change produced by a sub-agent in a scratch worktree and file it under /verif/seeded/<id>/

usage: confirm_seed.py <prop> <n> [--wt /tmp/wt/<prop>]
Runs, in the scratch worktree (never in /repo):
  demo without the change (must pass), cargo check + the crate's lib tests with the change
  (same pass/fail set as without), demo with the change (must fail).
"""
import json, os, re, shutil, subprocess, sys
prop, n = sys.argv[1], sys.argv[2]
wt = f"/tmp/wt/{prop}"
if "--wt" in sys.argv:
    wt = sys.argv[sys.argv.index("--wt") + 1]
src = f"/tmp/seeds/{prop}/{n}"
if "--src" in sys.argv:
    src = sys.argv[sys.argv.index("--src") + 1]
new_n = sys.argv[sys.argv.index("--as") + 1] if "--as" in sys.argv else n
meta = json.load(open(f"{src}/meta.json"))
def _s(v):
    if isinstance(v, dict):
        return str(v.get("primary") or v.get("location") or " ".join(str(x) for x in v.values()))
    return str(v)
loc = " ".join(_s(meta.get(k, "")) for k in ("demo_location", "demo", "demonstration")).replace("/tmp/wt/" + os.path.basename(wt) + "/", "") + " " + " ".join(meta.get("commands_run", []) if isinstance(meta.get("commands_run", []), list) else [])
append = re.search(r"[Aa]ppend\w*\s.*?(?:end|END) of (\S+\.rs)", loc) or re.search(r"[Aa]ppend\w*\s+to\s+(\S+\.rs)", loc)
m = re.search(r"(?:copy|drop|place|put)\s+(?:\S*demo\S*\s+)?(?:to|into|as|at)\s+(\S+\.rs)", loc) if not append else append
if not m:
    m = re.search(r"(\S+/tests/\S+\.rs)", loc)
install_sh = sys.argv[sys.argv.index("--install") + 1] if "--install" in sys.argv else None
_runtxt = (meta.get("demo") or {}).get("run", "") if isinstance(meta.get("demo"), dict) else ""
if install_sh:
    # explicit installation command (run in the worktree, {src} = the seed's directory); the crate comes from the demo's `-p`
    _mp = re.search(r"-p\s+(\S+)", _runtxt)
    m = None
    append = None
    dest = (_mp.group(1) if _mp else "unknown") + "/tests/demo.rs"
else:
    dest = m.group(1).rstrip(";,.)`") if m else None
if False:
    pass
if dest and not dest.endswith(".rs"):
    dest += "rs"
dest = dest.replace(wt + "/", "")
crate = dest.split("/")[0]
pkg = {"autonomi": "autonomi"}.get(crate, crate)
testname = os.path.basename(dest)[:-3]
libfilter = None
if append:
    mf = re.search(r"--lib\s+([A-Za-z0-9_:]+)", loc) or re.search(r"child module (\w+)", loc) or re.search(r"mod (\w+)", open(f"{src}/demo_test.rs").read())
    libfilter = mf.group(1) if mf else ""
env = dict(os.environ, CARGO_TARGET_DIR=f"{wt}/target", CARGO_NET_OFFLINE="true", USER="root")
demo_file = "demo_test.rs" if os.path.exists(f"{src}/demo_test.rs") else [f for f in os.listdir(src) if f.endswith(".rs")][0]
demo_cmd = f"cargo test -p {pkg} --offline --test {testname}" if not append else f"cargo test -p {pkg} --offline --lib {libfilter}"

_run = meta.get("demo", {}).get("run") if isinstance(meta.get("demo"), dict) else None
if _run and "cargo test" in _run:
    _c = _run[_run.index("cargo test"):]
    _c = re.split(r"\s{2,}\(", _c.split("&&")[0])[0].strip()
    if "--offline" not in _c:
        _c = _c.replace("cargo test", "cargo test --offline", 1)
    pre = ""
    if "cargo build" in _run and _run.index("cargo build") < _run.index("cargo test"):
        pre = _run[_run.index("cargo build"):_run.index("cargo test")].split("&&")[0].strip()
        if "--offline" not in pre:
            pre = pre.replace("cargo build", "cargo build --offline", 1)
        pre += " && "
    demo_cmd = pre + _c

def install_demo():
    if install_sh:
        r = subprocess.run(install_sh.replace("{src}", src), shell=True, cwd=wt, capture_output=True, text=True)
        assert r.returncode == 0, r.stderr
        return
    if append:
        open(f"{wt}/{dest}", "a").write("\n" + open(f"{src}/{demo_file}").read())
    else:
        os.makedirs(os.path.dirname(f"{wt}/{dest}"), exist_ok=True)
        shutil.copy(f"{src}/{demo_file}", f"{wt}/{dest}")

def sh(cmd):
    p = subprocess.run(cmd, shell=True, cwd=wt, env=env, capture_output=True, text=True)
    return p.returncode, p.stdout + p.stderr

def tests(out):
    # can_store_after_restart is not in the pinned suite (BASELINE always_fail: it depends on what else uses /tmp)
    return sorted(t for t in set(re.findall(r"^test (\S+) \.\.\. (ok|FAILED)", out, re.M)) if "can_store_after_restart" not in t[0])

def clean():
    sh("git checkout -- . && git clean -fdq -e target")

res = {}
clean()
install_demo()
rc, out = sh(demo_cmd)
res["demo_without_change"] = {"rc": rc, "tests": tests(out)}
clean()
rc0, out0 = sh(f"cargo test -p {pkg} --offline --lib")
res["lib_tests_without_change"] = tests(out0)
rc, out = sh(f"git apply {src}/patch.diff")
res["patch_applies"] = rc == 0
rc, out = sh(f"cargo check -p {pkg} --offline")
res["compiles_with_change"] = rc == 0
rc1, out1 = sh(f"cargo test -p {pkg} --offline --lib")
res["lib_tests_with_change"] = tests(out1)
install_demo()
rc, out = sh(demo_cmd)
res["demo_with_change"] = {"rc": rc, "tests": tests(out)}
clean()
ok = (res["demo_without_change"]["rc"] == 0 and res["patch_applies"] and res["compiles_with_change"]
      and res["lib_tests_with_change"] == res["lib_tests_without_change"] and res["demo_with_change"]["rc"] != 0)
res["confirmed"] = ok
sid = f"{prop}-{new_n}"
out_dir = f"/verif/seeded/{sid}"
if ok:
    os.makedirs(out_dir, exist_ok=True)
    shutil.copy(f"{src}/patch.diff", out_dir)
    shutil.copy(f"{src}/{demo_file}", out_dir)
    meta2 = {"id": sid, "breaks_property": prop, "summary": meta.get("summary"), "needs_to_manifest": meta.get("needs_to_manifest"),
             "files_changed": meta.get("files_changed"), "demo": {"file": demo_file, "install": (install_sh.replace("{src}/", "") + "  (run at the repository root)") if install_sh else (("append to the end of " if append else "copy to ") + dest), "run": demo_cmd},
             "confirmed_by_builder": {k: v for k, v in res.items()},
             "what_was_run": [f"(scratch worktree {wt}) {demo_cmd}  [without change: pass]",
                              f"git apply patch.diff; cargo check -p {pkg} --offline; cargo test -p {pkg} --offline --lib  [same results as without the change]",
                              f"{demo_cmd}  [with change: FAILS]"]}
    json.dump(meta2, open(f"{out_dir}/meta.json", "w"), indent=1)
print(sid, "CONFIRMED" if ok else "NOT CONFIRMED", json.dumps({k: (v if not isinstance(v, list) else len(v)) for k, v in res.items()}))
