#!/bin/sh
# like seedtest.sh but on a scratch copy of /repo (VERIF_REPO), so /repo is never touched and runs may overlap other checks
# usage: vx/seedtest2.sh <prop> <patch>
prop="$1"; patch="$2"
d=/tmp/seedcopy.$$
mkdir -p $d
rsync -a --exclude target --exclude .git /repo/ $d/
(cd $d && patch -p1 -s < "$patch") || { rm -rf $d; exit 3; }
cp /verif/evidence/$prop.json /tmp/ev2_$prop.$$ 2>/dev/null
VERIF_REPO=$d /verif/check "$prop" --no-kani | grep -v "^KNOWN-FINDING"
cp /tmp/ev2_$prop.$$ /verif/evidence/$prop.json 2>/dev/null; rm -f /tmp/ev2_$prop.$$
rm -rf $d
