#!/usr/bin/env python3
"""check driver: ./check <Cxx> --tier quick|thorough

exit 0  every obligation of the property discharged (known findings printed, not counted)
exit 1  VIOLATION property=<id> replay=<path>
exit 2  UNDECIDED (lost anchor, unsupported construct, rlimit, vacuous canary, tool failure)
"""
import concurrent.futures
import glob
import hashlib
import json
import os
import re
import subprocess
import sys
import time

HERE = os.path.dirname(os.path.abspath(__file__))
sys.path.insert(0, HERE)
VERIF = os.path.dirname(HERE)
REPO = os.environ.get("VERIF_REPO", "/repo")
BUILD = os.environ.get("VERIF_BUILD", os.path.join(VERIF, "build"))      # self-tests run in their own build/evidence dirs
EVIDENCE = os.environ.get("VERIF_EVIDENCE_DIR", os.path.join(VERIF, "evidence"))

from splice import splice, TemplateError  # noqa: E402
from extract import LostAnchor  # noqa: E402
from lex import LexError  # noqa: E402

DEFINITE = ("not satisfied", "assertion failed", "unable to prove", "possible arithmetic", "possible division", "possible bit shift",
            "could not prove termination", "might not be allowed", "unreachable", "assertion failure")
UNDECIDED_MARKS = ("rlimit", "Resource limit", "timed out", "solver")


class UnitResult:
    def __init__(self, unit):
        self.unit = unit
        self.status = "ok"          # ok | undecided
        self.reason = None
        self.fns = []
        self.errors = []            # dicts: fn, msg, line, src_line, clause, text
        self.canary_ok = {}
        self.verus = {}
        self.trusted = []
        self.cmd = ""
        self.wall = 0.0
        self.gen_path = None
        self.fn_times = {}


def run_verus(path, extra=(), timeout=900):
    cmd = ["verus", path, "--output-json", "--time", "--multiple-errors", "100", "--triggers-mode", "silent"] + list(extra) + ["--", "--error-format=json"]
    t0 = time.time()
    try:
        p = subprocess.run(cmd, cwd=os.path.dirname(path), capture_output=True, text=True, timeout=timeout)
    except subprocess.TimeoutExpired:
        return cmd, None, [], "timeout", time.time() - t0
    js = None
    try:
        js = json.loads(p.stdout)
    except Exception:
        m = re.search(r"\{.*\}", p.stdout, re.S)
        if m:
            try:
                js = json.loads(m.group(0))
            except Exception:
                js = None
    diags = []
    for ln in p.stderr.split("\n"):
        ln = ln.strip()
        if ln.startswith("{"):
            try:
                d = json.loads(ln)
                if d.get("$message_type") == "diagnostic":
                    diags.append(d)
            except Exception:
                pass
    return cmd, js, diags, p.stderr if js is None and not diags else None, time.time() - t0


def scan_trusted(text):
    """mechanical scan for everything that is assumed rather than proved"""
    out = []
    lines = text.split("\n")
    for k, ln in enumerate(lines):
        code = ln.split("//")[0]
        kind = None
        if "external_body" in code:
            kind = "external_body"
        elif "assume_specification" in code:
            kind = "assume_specification"
        elif re.search(r"\badmit\(\)", code):
            kind = "admit"
        elif re.search(r"\bassume\(", code):
            kind = "assume"
        elif re.search(r"\buninterp\s+spec\s+fn", code):
            kind = None  # uninterpreted symbols are not assumptions by themselves
        if kind:
            # name: next fn/struct on this or following lines
            name = None
            for j in range(k, min(k + 6, len(lines))):
                m = re.search(r"\b(fn|struct|enum)\s+(\w+)", lines[j])
                if m:
                    name = m.group(2)
                    break
                m = re.search(r"assume_specification\s*(<[^>]*>)?\s*\[([^\]]+)\]", lines[j])
                if m:
                    name = m.group(2).strip()
                    break
            # admit inside a proof fn: look upwards for its name
            if kind in ("admit", "assume") and name is None or kind in ("admit", "assume"):
                for j in range(k, max(-1, k - 8), -1):
                    m = re.search(r"\bfn\s+(\w+)", lines[j])
                    if m:
                        name = m.group(1)
                        break
            note = ""
            for j in range(k, max(-1, k - 4), -1):
                m = re.search(r"//\s*(A-[A-Z0-9]+[^\n]*)", lines[j])
                if m:
                    note = " — " + m.group(1).strip()
                    break
            out.append(f"{kind}: {name}{note}")
    seen = []
    for x in out:
        if x not in seen:
            seen.append(x)
    return seen


ignored_float = []


def classify(diags, fns, gen_lines, ill=None):
    """map verus diagnostics to functions; returns (errors, undecided_reason)"""
    errors = []
    undecided = None
    for d in diags:
        if d.get("level") != "error":
            continue
        msg = d.get("message", "")
        if msg.startswith("aborting due to") :
            continue
        spans = d.get("spans", [])
        prim = [s for s in spans if s.get("is_primary")] or spans
        line = prim[0]["line_start"] if prim else None
        sec = [s for s in spans if not s.get("is_primary")]
        definite = any(k in msg for k in DEFINITE) and d.get("code") is None
        if definite and msg.startswith("precondition not satisfied") and prim:
            # floating point is outside the verifier: vstd gives `/` etc. on f32/f64 a precondition it cannot
            # discharge; IEEE operations never panic, so these are not obligations of ours (reported in evidence)
            t = prim[0].get("text") or []
            hl = ""
            if t:
                hl = t[0]["text"][max(0, t[0].get("highlight_start", 1) - 1):t[0].get("highlight_end", 10**6) - 1]
                if prim[0]["line_end"] != prim[0]["line_start"]:
                    hl = " ".join(x["text"] for x in t)
            if re.search(r"\bf(32|64)\b", hl):
                ignored_float.append(f"line {line}: {hl.strip()[:80]}")
                continue
        if not definite:
            if any(k in msg for k in UNDECIDED_MARKS):
                undecided = undecided or f"verifier gave up: {msg[:100]} (line {line})"
            else:
                undecided = undecided or f"unsupported or ill-typed after extraction: {msg[:160]} (generated line {line}: {gen_lines[line-1].strip()[:80] if line else ''})"
                if ill is not None:
                    ill.append((line, msg[:160], [s_["line_start"] for s_ in spans]))
            continue
        # which function? a failing postcondition has its primary span at the exit and a secondary at the clause (or vice versa)
        cand_lines = [s["line_start"] for s in spans]
        fn = None
        for f in fns:
            if any(f.start <= l <= f.end for l in cand_lines if l):
                # prefer the fn containing the primary span
                if line and f.start <= line <= f.end:
                    fn = f
                    break
                fn = fn or f
        clause = None
        for s in spans:
            lab = s.get("label") or ""
            if "failed" in lab or not s.get("is_primary"):
                t = s.get("text") or []
                if t:
                    clause = t[0]["text"].strip()
        at = gen_lines[line - 1].strip() if line else ""
        errors.append({
            "fn": fn.name if fn else None,
            "fninfo": fn,
            "msg": msg,
            "line": line,
            "src_line": (fn.linemap.get(line) if fn else None),
            "at": at[:160],
            "clause": (clause or "")[:200],
            "rendered": d.get("rendered", "")[:1500],
        })
    return errors, undecided


def run_unit(unit, tier="quick", want_canary=True):
    res = UnitResult(unit)
    t0 = time.time()
    tmpl = os.path.join(VERIF, "units", unit, "unit.rs.tmpl")
    os.makedirs(BUILD, exist_ok=True)
    quarantine = {}
    inline = {}      # R15: function -> names of same-file helpers / constants to inline into it
    for attempt in range(6):
        try:
            text, fns, meta = splice(tmpl, REPO, canary=False, quarantine=quarantine, inline=inline)
            ctext, cfns, _ = splice(tmpl, REPO, canary=True, quarantine=quarantine, inline=inline)
        except (LostAnchor, LexError, TemplateError) as e:
            res.status = "undecided"
            res.reason = f"lost anchor: {e}"
            res.wall = time.time() - t0
            return res
        gen = os.path.join(BUILD, f"{unit}.rs")
        open(gen, "w").write(text)
        cgen = os.path.join(BUILD, f"{unit}_canary.rs")
        open(cgen, "w").write(ctext)
        res.gen_path = gen
        res.own_iter = (meta or {}).get("own_iter", ())
        res.fns = fns
        res.trusted = scan_trusted(text)
        extra = []
        base_rl = (meta or {}).get("rlimit")
        if base_rl:
            extra = ["--rlimit", str(base_rl)]          # the unit states its own resource limit (//@UNIT rlimit=)
        elif tier == "thorough":
            extra = ["--rlimit", "40"]
        retry_rl = str(max(40, 2 * (base_rl or 0)))
        with concurrent.futures.ThreadPoolExecutor(max_workers=2) as ex:
            f1 = ex.submit(run_verus, gen, extra)
            f2 = ex.submit(run_verus, cgen, extra) if want_canary else None
            cmd, js, diags, fatal, wall = f1.result()
            cres = f2.result() if f2 else None
        res.cmd = " ".join(cmd)
        if js is None and not diags:
            res.status = "undecided"
            res.reason = "verus produced no result: " + str(fatal)[:300]
            res.wall = time.time() - t0
            return res
        # a real body that no longer type-checks against its stand-ins is set aside (its obligation becomes undecided)
        # and the unit is run again, so that the other obligations are still decided
        ill = []
        classify(diags, fns, text.split("\n"), ill)
        newq = {}
        newinl = False
        inl_round = set()
        for (line, msg, sl) in ill:
            for f in fns:
                if f.kind == "body" and f.lost is None and f.body_lines[0] and any(l and f.body_lines[0] <= l <= f.body_lines[1] for l in [line] + sl):
                    # R15 first: an unknown helper / constant that the same source file defines is inlined (once)
                    mm = re.search(r"(?:no method named|no (?:function or )?associated (?:function or constant|item) named|cannot find function|cannot find value) `(\w+)`", msg)
                    if mm and mm.group(1) not in inline.get(f.name, set()) and not mm.group(1).startswith("__"):
                        inline.setdefault(f.name, set()).add(mm.group(1))
                        newinl = True
                        inl_round.add(f.name)
                    else:
                        newq.setdefault(f.name, f"real body ill-typed against the unit's stand-ins: {msg}")
        for fname in inl_round:
            # a function that gets something inlined this round is judged on its next splice, not on this round's other messages
            newq.pop(fname, None)
        if (not newq and not newinl) or attempt == 5:
            break
        quarantine.update(newq)
    gen_lines = text.split("\n")
    errors, undecided = classify(diags, fns, gen_lines)
    vr = (js or {}).get("verification-results", {})
    res.verus = {"verified": vr.get("verified"), "errors": vr.get("errors"), "success": vr.get("success")}
    # per-function times
    try:
        for mod in js["times-ms"]["smt"]["smt-run-module-times"]:
            for fb in mod.get("function-breakdown", []):
                res.fn_times[fb["function"]] = {"ms": fb.get("time"), "rlimit": fb.get("rlimit"), "success": fb.get("success")}
    except Exception:
        pass
    if undecided:
        res.status = "undecided"
        res.reason = undecided
    # retry definite failures once with a larger resource limit and another seed: they must persist
    hard = [e for e in errors if not (e["fninfo"] is not None and e["fninfo"].known)]
    if hard and res.status == "ok":
        # three more runs (larger resource limit, three other seeds), in parallel: a refutation has to persist in ALL of them —
        # an obligation that is discharged under any seed is a proof, and one that fails only under some is a brittle proof, not
        # a violation (found with harmless/H05: a behaviour-preserving edit tipped a large postcondition over under seed 0 only)
        und2 = None
        with concurrent.futures.ThreadPoolExecutor(max_workers=3) as ex:
            futs = {sd: ex.submit(run_verus, gen, ["--rlimit", retry_rl, "--smt-option", f"smt.random_seed={sd}"]) for sd in (7, 13, 31)}
            reruns = {}
            for sd, fu in futs.items():
                _c, _js, diags2, _fatal, _w = fu.result()
                errors2, u2 = classify(diags2, fns, gen_lines)
                reruns[sd] = errors2
                und2 = und2 or u2
        keep = []
        for e in errors:
            if e["fninfo"] is not None and e["fninfo"].known:
                keep.append(e)
                continue
            passed = [sd for sd, errors2 in reruns.items() if not any(e2["fn"] == e["fn"] and e2["line"] == e["line"] and e2["msg"] == e["msg"] for e2 in errors2)]
            if not passed:
                keep.append(e)
            else:
                res.verus.setdefault("unstable", []).append(f"{e['fn']}: {e['msg']} (discharged with rlimit {retry_rl}, seed(s) {passed})")
        errors = keep
        if und2 and not undecided:
            res.status = "undecided"
            res.reason = und2
    res.errors = errors
    # thorough tier: the same proofs under two more solver seeds (a proof found once is a proof; this measures how robust
    # the proof search is, slow or seed-dependent queries being the ones that later fail for no semantic reason)
    if tier == "thorough" and res.status == "ok":
        stab = {}
        with concurrent.futures.ThreadPoolExecutor(max_workers=2) as ex:
            futs = {sd: ex.submit(run_verus, gen, extra + ["--smt-option", f"smt.random_seed={sd}"]) for sd in (7, 13)}
            for sd, fu in futs.items():
                _, js_s, diags_s, _, wall_s = fu.result()
                e_s, u_s = classify(diags_s, fns, gen_lines)
                hard_s = [e for e in e_s if not (e["fninfo"] is not None and e["fninfo"].known)]
                hard_0 = [e for e in errors if not (e["fninfo"] is not None and e["fninfo"].known)]
                stab[str(sd)] = {"wall_s": round(wall_s, 1), "same_verdicts_as_seed_0": sorted((e["fn"], e["msg"]) for e in hard_s) == sorted((e["fn"], e["msg"]) for e in hard_0) and not u_s,
                                 "differs": [f"{e['fn']}: {e['msg']}" for e in hard_s if not any(e2["fn"] == e["fn"] and e2["msg"] == e["msg"] for e2 in hard_0)][:5] + ([u_s] if u_s else [])}
        res.verus["seed_stability"] = stab
    if js is not None and vr.get("success") is False and not errors and not undecided and not diags:
        res.status = "undecided"
        res.reason = "verus reported failure without diagnostics"
    # every tagged function must have been looked at by the verifier
    names = list(res.fn_times.keys())
    for f in fns:
        if not any(nm.endswith("::" + f.simple) for nm in names):
            # functions with no SMT query (e.g. trivial) still appear; absence means it was not verified
            if res.status == "ok":
                res.status = "undecided"
                res.reason = f"function {f.name} was not verified by verus (no solver entry)"
    # canary
    if cres is not None:
        _, cjs, cdiags, cfatal, _ = cres
        if cjs is None and not cdiags:
            res.status = "undecided"
            res.reason = res.reason or "canary run produced no result"
        else:
            cerrors, cund = classify(cdiags, cfns, ctext.split("\n"))
            if cund and res.status == "ok":
                res.status = "undecided"
                res.reason = "canary file: " + cund
            for f in cfns:
                if f.known or f.lost:
                    continue
                failed = any(e["fninfo"] is f for e in cerrors)
                res.canary_ok[f.name] = failed
                if not failed and res.status == "ok":
                    res.status = "undecided"
                    res.reason = f"vacuity canary: `{f.name}` verifies with `ensures false` (contradictory requires or assumptions)"
    res.wall = time.time() - t0
    return res


WEAK_ADAPTORS = {"any", "all", "find", "find_map", "position", "rposition", "map", "filter", "filter_map", "flat_map", "flatten", "fold", "for_each",
                 "max", "min", "max_by_key", "min_by_key", "max_by", "min_by", "sum", "product", "count", "zip", "chain", "rev", "skip", "take_while",
                 "skip_while", "cloned", "copied", "enumerate", "last", "nth", "unzip", "partition", "reduce", "inspect", "scan", "step_by", "peekable",
                 "cmp", "eq", "lt", "le", "is_sorted"}


def weak_std_calls(r, f):
    """names of std iterator adaptors (first call after .iter() / .into_iter() / .values() …) that appear in the REAL part of the
    spliced body of f; methods the unit's own stand-in iterators provide are listed by the unit (//@UNIT own_iter=find,…)"""
    try:
        lines = open(r.gen_path).read().split("\n")
        a, b = f.body_lines
        body = "\n".join(lines[a - 1:b])
    except Exception:
        return []
    own = set(getattr(r, "own_iter", ()) or ())
    out = []
    for m in re.finditer(r"\.\s*(?:iter|into_iter|iter_mut|values|keys|values_mut|chars|bytes|into_par_iter|par_iter|drain)\s*\(\s*\)\s*\.\s*(\w+)\s*\(", body):
        if m.group(1) in WEAK_ADAPTORS and m.group(1) not in own and m.group(1) not in out:
            out.append(m.group(1))
    return out


VALUE_CLOSURE_TAKERS = {"map", "and_then", "map_or", "map_or_else", "unwrap_or_else", "is_some_and", "is_ok_and", "is_none_or", "filter", "then",
                        "or_else", "find", "find_map", "any", "all", "position", "rposition", "filter_map", "fold", "retain", "sort_by", "sort_by_key",
                        "max_by_key", "min_by_key", "max_by", "min_by", "for_each", "take_while", "skip_while", "flat_map", "partition", "reduce",
                        "scan", "get_or_insert_with", "or_insert_with", "and_modify", "then_some", "zip", "map_while", "try_for_each", "try_fold"}


def uncontracted_value_closures(r, f):
    """methods of the REAL part of the spliced body of f that are handed a closure WITHOUT a contract and whose result depends on what
    the closure returns (`opt.map(|x| ..)`, `res.and_then(|x| ..)`, `v.retain(|x| ..)`). Verus accepts such a call but knows nothing
    about the closure's result, so a failed obligation of that function may be the verifier's limit, not the code's fault (false alarm
    H45: `range.map(|range| range.bounds().0)` instead of an explicit match). Ghost text (proof blocks, assertions, loop
    specifications, `let ghost`) is skipped: closures there are spec closures."""
    try:
        from lex import lex, match_close
        lines = open(r.gen_path).read().split("\n")
        a, b = f.body_lines
        toks = lex("\n".join(lines[a - 1:b]))
    except Exception:
        return []
    own = set(getattr(r, "own_iter", ()) or ())
    out = []
    i = 0
    n = len(toks)
    while i < n:
        t = toks[i]
        # ghost text
        if t.text == "proof" and i + 1 < n and toks[i + 1].text == "{":
            i = match_close(toks, i + 1) + 1
            continue
        if t.text in ("assert", "assume") or (t.text == "let" and i + 1 < n and toks[i + 1].text == "ghost"):
            d = 0
            while i < n:
                x = toks[i].text
                if x in ("(", "[", "{"):
                    i = match_close(toks, i)
                elif x == ";":
                    break
                elif x == "by" and i + 1 < n and toks[i + 1].text == "{":
                    i = match_close(toks, i + 1)
                    break
                i += 1
            i += 1
            continue
        if t.text in ("invariant", "invariant_except_break", "ensures", "decreases", "requires"):
            while i < n and toks[i].text != "{":
                if toks[i].text in ("(", "["):
                    i = match_close(toks, i)
                i += 1
            continue
        prev = toks[i - 1].text if i else ""
        if t.kind == "punct" and t.text in ("|", "||") and prev in ("(", ",", "move"):
            st = i - 1 if prev == "move" else i
            if t.text == "||":
                pe = i
            else:
                pe = i + 1
                while pe < n and toks[pe].text != "|":
                    if toks[pe].text in ("(", "[", "{", "<") and toks[pe].text != "<":
                        pe = match_close(toks, pe)
                    pe += 1
            has_contract = False
            q = pe + 1
            if q < n and toks[q].text == "->":
                while q < n and toks[q].text != "{":
                    if toks[q].text == "ensures":
                        has_contract = True
                    if toks[q].text in ("(", "["):
                        q = match_close(toks, q)
                    q += 1
            # the method the closure is handed to: `. NAME (` [args ,] CLOSURE
            k = st - 1
            depth = 0
            while k >= 0:
                x = toks[k].text
                if x in (")", "]", "}"):
                    depth += 1
                elif x in ("(", "[", "{"):
                    if depth == 0:
                        break
                    depth -= 1
                k -= 1
            name = toks[k - 1].text if k >= 1 and toks[k].text == "(" else ""
            is_method = k >= 2 and toks[k - 2].text == "."
            if not has_contract and is_method and name in VALUE_CLOSURE_TAKERS and name not in own and name not in out:
                out.append(name)
            i = pe + 1
            continue
        i += 1
    return out


def units_for(prop):
    out = []
    for tmpl in sorted(glob.glob(os.path.join(VERIF, "units", "*", "unit.rs.tmpl"))):
        txt = open(tmpl).read()
        if re.search(r"props=[\w,]*\b%s\b" % prop, txt):
            out.append(os.path.basename(os.path.dirname(tmpl)))
    return out


def load_json(path, default):
    try:
        return json.load(open(path))
    except Exception:
        return default


def main():
    import argparse
    ap = argparse.ArgumentParser()
    ap.add_argument("prop")
    ap.add_argument("--tier", default=os.environ.get("VERIF_TIER", "quick"))
    ap.add_argument("--replay")
    ap.add_argument("--no-kani", action="store_true")
    ap.add_argument("--update-lock", action="store_true")
    args = ap.parse_args()
    prop = args.prop
    tier = args.tier if args.tier in ("quick", "thorough") else "quick"
    seed = int(os.environ.get("VERIF_SEED", "0") or 0)
    t0 = time.time()
    if args.replay:
        print(open(args.replay).read())
        return 0
    props = load_json(os.path.join(VERIF, "props.json"), {})
    pinfo = props.get(prop)
    if pinfo is None:
        print(f"UNDECIDED property={prop} reason=not a claimed property")
        return 2
    known = load_json(os.path.join(VERIF, "known_findings.json"), {"findings": []})
    lock = load_json(os.path.join(VERIF, "obligations.lock"), {})
    units = units_for(prop)
    results = {}
    with concurrent.futures.ThreadPoolExecutor(max_workers=max(1, min(8, len(units)))) as ex:
        futs = {u: ex.submit(run_unit, u, tier) for u in units}
        for u, f in futs.items():
            results[u] = f.result()

    # engine K (Kani) harnesses
    kani_res = None
    import kani as kani_mod
    kani_res = kani_mod.run_for_property(prop, tier, REPO, BUILD, enabled=not args.no_kani)

    obligations = []
    discharged = []
    violations = []
    known_lines = []
    undecided = []
    fn_records = []
    trusted = []
    drops = []
    canaries = 0
    for u, r in results.items():
        if r.status == "undecided":
            undecided.append(f"{u}: {r.reason}")
        for t in r.trusted:
            if t not in trusted:
                trusted.append(t)
        for f in r.fns:
            if prop not in f.props:
                continue
            oid = f"{u}::{f.name}"
            errs = [e for e in r.errors if e["fninfo"] is f]
            for (rule, orig) in f.report:
                drops.append(f"{oid}: {rule}: {orig[:120]}")
            tm = None
            for nm, v in r.fn_times.items():
                if nm.endswith("::" + f.simple):
                    tm = v
            rec = {"id": oid, "kind": f.kind, "source": (f"{f.src}:{f.src_first_line} {f.qual}" if f.src else "template lemma"),
                   "solver_ms": tm["ms"] if tm else None, "rlimit": tm["rlimit"] if tm else None, "backend": "verus/z3"}
            if f.known:
                kf = [k for k in known["findings"] if k.get("id") == f.known and k.get("property") == prop]
                if errs:
                    if kf and kf[0].get("status") == "open":
                        known_lines.append(f"KNOWN-FINDING: property={prop} {f.known} {kf[0]['witness']}")
                        rec["status"] = "known-finding (fails as recorded)"
                    else:
                        # a failing wrapper that is not an open finding for this property is a real failure
                        obligations.append(oid)
                        violations.append((oid, errs, r))
                        rec["status"] = "FAILED"
                else:
                    rec["status"] = "known-finding wrapper verifies (finding no longer reproduces)"
                fn_records.append(rec)
                continue
            obligations.append(oid)
            # a counter the contracts know nothing about (`let mut level = 0; … level += 1;` added for a log line): "possible overflow"
            # of an unbounded increment in a loop is the verifier's limit (no invariant can bound a local the template never names),
            # not a refutation (false alarm H46). Such messages are set aside; if nothing else failed the function is UNDECIDED.
            counter_only = []
            if errs:
                try:
                    _tt = open(os.path.join(VERIF, "units", r.unit, "unit.rs.tmpl")).read()
                    _tt = re.sub(r"//[^@\n][^\n]*", "", _tt)      # prose comments do not count; `//@` directive lines do
                    _tt = re.sub(r"//@(?:BODY|INLINE|TAG)[^\n]*", "", _tt)    # … except the headers that only name obligations
                except Exception:
                    _tt = ""
                def _free_counter(e):
                    if "overflow" not in e["msg"]:
                        return False
                    at = (e.get("at") or "").strip()
                    mm = re.fullmatch(r"(\w+)\s*(?:\+=|-=)\s*\d+\s*;?", at) or re.fullmatch(r"(\w+)\s*=\s*(\w+)\s*[+-]\s*\d+\s*;?", at)
                    if not mm:
                        return False
                    if mm.lastindex == 2 and mm.group(1) != mm.group(2):
                        return False
                    return not re.search(r"\b%s\b" % re.escape(mm.group(1)), _tt)
                counter_only = [e for e in errs if _free_counter(e)]
                errs = [e for e in errs if e not in counter_only]
            if counter_only and not errs:
                undecided.append(f"{oid}: an unbounded counter the contracts do not name may overflow (`{counter_only[0].get('at', '')[:80]}`): verifier limit, not a refutation")
                rec["status"] = "undecided (free counter)"
                fn_records.append(rec)
                continue
            if r.canary_ok.get(f.name):
                canaries += 1
            if f.lost:
                undecided.append(f"{oid}: {f.lost}")
                rec["status"] = "undecided (lost anchor / ill-typed real body)"
            elif errs and f.lost_hints:
                undecided.append(f"{oid}: proof hint anchor lost ({f.lost_hints[0]}) and the proof does not go through without it: {errs[0]['msg']}")
                rec["status"] = "undecided"
            elif errs and weak_std_calls(r, f):
                # the installed Verus ACCEPTS some std iterator adaptors (any, all, map, position, …) but knows nothing about their
                # results; a body that reaches its result through one of them cannot be judged: a failed obligation may be the
                # verifier's limit, not the code's fault (e.g. a harmless rewrite of a loop into `.iter().any(..)`)
                wk = weak_std_calls(r, f)
                undecided.append(f"{oid}: the body uses std iterator adaptor(s) the verifier has no usable specification for ({', '.join(wk[:4])}); failed: {errs[0]['msg']}")
                rec["status"] = "undecided (unspecified std iterator adaptors)"
            elif errs and uncontracted_value_closures(r, f) and not any(("overflow" in e["msg"] or "divide by zero" in e["msg"] or "division by zero" in e["msg"]) for e in errs):
                # (an arithmetic failure is definite wherever it sits — also inside such a closure: `port.map(|port| port + 1)`)
                # a closure without a contract handed to Option::map / and_then / retain / …: its result is opaque to the verifier
                wk = uncontracted_value_closures(r, f)
                undecided.append(f"{oid}: the body hands a closure without a contract to {', '.join('`' + w + '`' for w in wk[:4])}, whose result the verifier cannot follow; failed: {errs[0]['msg']}")
                rec["status"] = "undecided (closure without contract)"
            elif errs:
                violations.append((oid, errs, r))
                rec["status"] = "FAILED"
            elif r.status == "ok":
                discharged.append(oid)
                rec["status"] = "discharged"
            else:
                rec["status"] = "undecided"
            fn_records.append(rec)
    # configuration obligations (mechanical, not deductive): facts about build files the proofs were made under
    for co in pinfo.get("config_obligations", []):
        oid = "config::" + co["id"]
        obligations.append(oid)
        if co.get("kind") in ("clap_flags", "clap_constraints"):
            import clapflags
            st, detail = clapflags.check(REPO, co) if co["kind"] == "clap_flags" else clapflags.check_constraints(REPO, co)
            rec = {"id": oid, "kind": "config", "source": ", ".join(x[0] for x in co["declared_in"]), "backend": "mechanical reading of clap derive attributes and of the written flag literals (vx/clapflags.py)",
                   "status": {"ok": "discharged", "violation": "FAILED", "undecided": "undecided"}[st], "detail": detail, "solver_ms": 0, "rlimit": None}
            fn_records.append(rec)
            if st == "ok":
                discharged.append(oid)
            elif st == "violation":
                violations.append((oid, [{"msg": "configuration obligation not met: " + detail, "at": co["file"], "clause": co["why"], "line": None, "src_line": None, "rendered": detail}], None))
            else:
                undecided.append(f"{oid}: {detail}")
            continue
        if co.get("kind") == "fn_token_count_max":
            # an ASSUMPTION turned into a checked side condition: a function verified under A-CLOCK ("one clock reading per call")
            # contains at most `max` readings of the clock; more than that and the assumption no longer covers it (UNDECIDED, never a violation)
            from lex import lex as _lex, locate as _locate
            st, detail = "ok", ""
            try:
                toks = _lex(open(os.path.join(REPO, co["file"])).read())
                loc = _locate(toks, co["fn"])
                if loc is None:
                    st, detail = "undecided", f"function {co['fn']} not found in {co['file']}"
                else:
                    want = co["tokens"]
                    body = [t.text for t in toks[loc[1]:loc[2]]]
                    n_hit = sum(1 for k in range(len(body)) if body[k:k + len(want)] == want)
                    if n_hit > co["max"]:
                        st, detail = "undecided", f"{co['fn']} contains `{' '.join(want)}` {n_hit} times (assumed: at most {co['max']}): {co['why'][:200]}"
            except Exception as e:   # noqa
                st, detail = "undecided", str(e)
            rec = {"id": oid, "kind": "config", "source": co["file"], "backend": "token scan of one function body", "status": {"ok": "discharged", "undecided": "undecided"}[st], "detail": detail, "solver_ms": 0, "rlimit": None}
            fn_records.append(rec)
            if st == "ok":
                discharged.append(oid)
            else:
                undecided.append(f"{oid}: {detail}")
            continue
        if co.get("kind") in ("fn_must_not_contain", "fn_must_contain"):
            # a function body must not contain a given token sequence (e.g. `spawn (`): mechanical, for facts the extraction
            # rules would hide (R6 runs a spawned task at its spawn point, so a contract cannot tell a detached write from one in place)
            from lex import lex as _lex, locate as _locate
            st, detail = "ok", ""
            try:
                toks = _lex(open(os.path.join(REPO, co["file"])).read())
                loc = _locate(toks, co["fn"])
                if loc is None:
                    st, detail = "undecided", f"function {co['fn']} not found in {co['file']}"
                else:
                    want = co["tokens"]
                    body = [t.text for t in toks[loc[1]:loc[2]]]
                    hit = any(body[k:k + len(want)] == want for k in range(len(body)))
                    if co["kind"] == "fn_must_contain":
                        if not hit:
                            st, detail = ("undecided" if co.get("on_miss") == "undecided" else "violation"), f"{co['fn']} does not contain `{' '.join(want)}`: {co['why'][:200]}"
                    elif hit:
                        st, detail = "violation", f"{co['fn']} contains `{' '.join(want)}`"
            except Exception as e:   # noqa
                st, detail = "undecided", str(e)
            rec = {"id": oid, "kind": "config", "source": co["file"], "backend": "token scan of one function body", "status": {"ok": "discharged", "violation": "FAILED", "undecided": "undecided"}[st], "detail": detail, "solver_ms": 0, "rlimit": None}
            fn_records.append(rec)
            if co.get("known"):
                # an obligation stated from the property that is recorded as an open finding: it fails as recorded
                obligations.pop()
                kf = [k for k in known["findings"] if k.get("id") == co["known"] and k.get("property") == prop and k.get("status") == "open"]
                if st == "violation" and kf:
                    known_lines.append(f"KNOWN-FINDING: property={prop} {co['known']} {kf[0]['witness']}")
                    rec["status"] = "known-finding (fails as recorded)"
                    continue
                if st == "ok":
                    rec["status"] = "known-finding obligation holds (finding no longer reproduces)"
                    continue
                obligations.append(oid)
            if st == "ok":
                discharged.append(oid)
            elif st == "violation":
                violations.append((oid, [{"msg": "configuration obligation not met: " + co["why"] + " — " + detail, "at": co["file"], "clause": co["why"], "line": None, "src_line": None, "rendered": detail}], None))
            else:
                undecided.append(f"{oid}: {detail}")
            continue
        if co.get("kind") == "serde_attrs":
            # wire types are assumed to round-trip as plain derives: a skipped field without a default cannot decode back
            # (definite); any other serde attribute only means the assumption is no longer covered (undecided)
            bad, other = [], []
            files = sorted(glob.glob(os.path.join(REPO, co["files_glob"]), recursive=True))
            for fp in files:
                try:
                    lines_ = open(fp).read().split("\n")
                except Exception:
                    continue
                for ln_no, ln in enumerate(lines_, 1):
                    if "#[serde(" not in ln:
                        continue
                    ctx = " ".join(lines_[max(0, ln_no - 3):ln_no + 2])
                    where = f"{os.path.relpath(fp, REPO)}:{ln_no}: {ln.strip()[:100]}"
                    if re.search(r"\bskip(_serializing_if|_serializing|_deserializing)?\b", ln) and not re.search(r"#\[serde\([^\]]*\bdefault\b", ctx):
                        bad.append(where)
                    else:
                        other.append(where)
            okc = bool(files) and not bad and not other
            co = dict(co, file=co["files_glob"], must_match="no #[serde(..)] attribute on the wire types")
            if bad:
                co["why"] = "a field of a wire type is skipped on the wire and has no default, so a value carrying it does not decode back to itself: " + "; ".join(bad[:3])
            elif other:
                co["why"] = co["why"] + "; found: " + "; ".join(other[:3])
                co["on_hit"] = "undecided"
        elif co.get("must_not_match"):
            # a pattern that must not occur in any of the globbed source files (precondition of an assumption)
            hits = []
            files = sorted(glob.glob(os.path.join(REPO, co["files_glob"]), recursive=True))
            for fp in files:
                try:
                    for ln_no, ln in enumerate(open(fp).read().split("\n"), 1):
                        if re.search(co["must_not_match"], ln):
                            hits.append(f"{os.path.relpath(fp, REPO)}:{ln_no}: {ln.strip()[:100]}")
                except Exception:
                    pass
            okc = bool(files) and not hits
            co = dict(co, file=co["files_glob"], must_match="must not match: " + co["must_not_match"], why=co["why"] + ("; found: " + "; ".join(hits[:3]) if hits else ""))
        else:
            path = os.path.join(REPO, co["file"])
            try:
                txt = open(path).read()
                okc = re.search(co["must_match"], txt, re.M) is not None
            except Exception:
                txt = ""
                okc = False
        rec = {"id": oid, "kind": "config", "source": co["file"], "backend": "regex on the source / build files", "status": "discharged" if okc else "FAILED", "solver_ms": 0, "rlimit": None}
        fn_records.append(rec)
        if okc:
            discharged.append(oid)
        elif co.get("on_hit") == "undecided" or co.get("on_miss") == "undecided":
            rec["status"] = "undecided"
            undecided.append(f"{oid}: {co['why'][:300]}")
        else:
            violations.append((oid, [{"msg": "configuration obligation not met: " + co["why"], "at": co["file"], "clause": co["must_match"], "line": None, "src_line": None, "rendered": co["why"]}], None))

    # Kani results
    kani_records = []
    if kani_res:
        for h in kani_res["harnesses"]:
            kani_records.append(h)
            oid = "kani::" + h["name"]
            if h["status"] == "not_run":
                continue
            if h.get("known"):
                kf = [k for k in known["findings"] if k.get("id") == h["known"] and k.get("property") == prop and k.get("status") == "open"]
                if h["status"] == "failed" and kf:
                    known_lines.append(f"KNOWN-FINDING: property={prop} {h['known']} {kf[0]['witness']}")
                    continue
            if h.get("bounded"):
                # bounded stand-ins are never counted as discharged; a failure is still a counterexample
                if h["status"] == "failed":
                    violations.append((oid, [{"msg": h.get("failure", "kani failure"), "at": h.get("harness", ""), "clause": "", "line": None, "src_line": None, "rendered": h.get("output_tail", "")}], None))
                elif h["status"] == "undecided":
                    undecided.append(f"kani {h['name']}: {h.get('failure')}")
                continue
            obligations.append(oid)
            if h["status"] == "passed":
                discharged.append(oid)
            elif h["status"] == "failed":
                violations.append((oid, [{"msg": h.get("failure", "kani failure"), "at": h.get("harness", ""), "clause": "", "line": None, "src_line": None, "rendered": h.get("output_tail", "")}], None))
            else:
                undecided.append(f"kani {h['name']}: {h.get('failure')}")

    # lock: every obligation recorded on the reference tree must still exist
    locked = lock.get(prop, [])
    if args.update_lock:
        lock[prop] = sorted(o for o in obligations if not o.startswith("kani::") or tier == "thorough" or True)
        json.dump(lock, open(os.path.join(VERIF, "obligations.lock"), "w"), indent=1, sort_keys=True)
    else:
        kani_not_run = {("kani::" + h["name"]) for h in (kani_res or {"harnesses": []})["harnesses"] if h["status"] == "not_run"}
        missing = [o for o in locked if o not in obligations and o not in kani_not_run and not (o.startswith("kani::") and tier == "quick" and not any(k["name"] == o[6:] for k in kani_records))]
        if missing and not undecided:
            undecided.append("obligations recorded in obligations.lock are missing: " + ", ".join(missing[:5]))

    wall = time.time() - t0
    status = 0
    replay_path = None
    os.makedirs(os.path.join(BUILD, "replay"), exist_ok=True)
    out_lines = []
    if violations:
        status = 1
        oid, errs, r = violations[0]
        replay_path = os.path.join(BUILD, "replay", f"{prop}-{re.sub(r'[^A-Za-z0-9_.-]', '_', oid)}.json")
        rep = {"property": prop, "failed_obligations": [], "counterexample": None}
        for (oid_, errs_, r_) in violations:
            for e in errs_:
                rep["failed_obligations"].append({
                    "obligation": oid_, "verifier_message": e["msg"], "failing_clause": e.get("clause"),
                    "at_generated_line": e.get("line"), "at_source_line": e.get("src_line"), "at_text": e.get("at"),
                    "verifier_output": e.get("rendered"),
                })
        cex = None
        if kani_res:
            cex = kani_res.get("counterexample")
        if cex is None and not args.no_kani:
            # paired Kani harness for a failed Verus obligation (counterexample producer)
            cex = kani_mod.counterexample_for(prop, [v[0] for v in violations], REPO, BUILD)
        rep["counterexample"] = cex
        json.dump(rep, open(replay_path, "w"), indent=1)
        tail = "" if cex and cex.get("replayed") else " no-failing-input-found"
        for (oid_, errs_, _) in violations:
            for e in errs_[:3]:
                out_lines.append(f"  failed obligation {oid_}: {e['msg']}" + (f" [{e.get('clause')}]" if e.get("clause") else "") + (f" at {e.get('at')}" if e.get("at") else ""))
        out_lines.append(f"VIOLATION property={prop} replay={replay_path}{tail}")
    elif undecided:
        status = 2
        for u in undecided:
            out_lines.append(f"UNDECIDED property={prop} reason={u}")
    for kl in known_lines:
        print(kl)
    for ol in out_lines:
        print(ol)

    # evidence
    samples = []
    for rec in fn_records[:6]:
        samples.append(rec)
    n_obl = len(obligations)
    cov = {
        "obligations": n_obl,
        "discharged": len(discharged),
        "checker_cmd": "; ".join(sorted({r.cmd for r in results.values() if r.cmd})) + ("; " + kani_res["cmd"] if kani_res and kani_res.get("cmd") else ""),
        "trusted_base": trusted + ["extraction drop — " + d for d in drops[:200]] + pinfo.get("assumptions", []),
        "samples": samples,
        "functions_under_contract": fn_records,
        "kani_harnesses": kani_records,
        "canaries_failed_as_required": canaries,
        "bounded": [h for h in kani_records if h.get("bounded")],
        "not_covered": pinfo.get("not_covered", []),
        "known_findings_reported": known_lines,
        "undecided": undecided,
        "float_ops_not_checked": sorted(set(ignored_float)),
        "verus_totals": {u: r.verus for u, r in results.items()},
        "unit_wall_s": {u: round(r.wall, 2) for u, r in results.items()},
        "obligation_definition": "one obligation = one function (real body spliced, or lemma) whose every Verus verification condition (postconditions, callee preconditions, loop invariants, overflow/index/unwrap safety) was discharged, or one complete (unbounded-domain, loop-free) Kani harness; bounded Kani harnesses are listed under `bounded` and never counted",
        "repo_head": subprocess.run(["git", "-C", REPO, "rev-parse", "HEAD"], capture_output=True, text=True).stdout.strip(),
        "repo_dirty": bool(subprocess.run(["git", "-C", REPO, "status", "--porcelain", "--untracked-files=no"], capture_output=True, text=True).stdout.strip()),
    }
    ev = {
        "property_id": prop, "tier": tier, "seed": seed, "level": "proof", "coverage": cov,
        "assumptions": pinfo.get("assumptions", []) + ["see coverage.trusted_base for the mechanical scan of every external_body / assume_specification / admit"],
        "wall_s": round(wall, 2), "violations": len(violations),
        "exit_status": status,
    }
    os.makedirs(EVIDENCE, exist_ok=True)
    json.dump(ev, open(os.path.join(EVIDENCE, f"{prop}.json"), "w"), indent=1)
    if status == 0:
        print(f"OK property={prop} obligations={n_obl} discharged={len(discharged)} known_findings={len(known_lines)} wall={wall:.1f}s")
    return status


if __name__ == "__main__":
    sys.exit(main())
