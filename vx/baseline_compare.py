"""compare a `cargo test --workspace --no-fail-fast --offline` log with /root/.vp/BASELINE.json (developer helper)"""
import json, re, ast, sys
b = json.load(open('/root/.vp/BASELINE.json'))
sp, af = b['stable_pass'], b['always_fail']
if isinstance(sp, str): sp = ast.literal_eval(sp)
if isinstance(af, str): af = ast.literal_eval(af)
log = open(sys.argv[1]).read()
ok = set(re.findall(r"^test (\S+) \.\.\. ok$", log, re.M)); failed = set(re.findall(r"^test (\S+) \.\.\. FAILED$", log, re.M))
miss = [t for t in sp if t.split('::', 1)[1] not in ok and t.split('::', 2)[-1] not in ok]
newfail = [f for f in failed if not any(a.endswith(f) for a in af)]
print(f"stable_pass {len(sp)} ok-lines {len(ok)} failed {len(failed)}; stable_pass not ok: {miss[:10]}; failed outside always_fail: {newfail[:10]}")
sys.exit(1 if miss or newfail else 0)
