#!/usr/bin/env python3
"""developer helper: in-repository functions that stand behind an `external_body` stand-in of some unit and have no //@BODY
(real body under contract) anywhere — candidates for "assumed contract on code that is in the repository" (DESIGN §10, tenth set).
Names are matched by their last path segment, so the list over-approximates; std-like names are filtered."""
import glob, os, re, subprocess
V = os.path.dirname(os.path.dirname(os.path.abspath(__file__)))
REPO = os.environ.get("VERIF_REPO", "/repo")
bodies, ext = set(), {}
for t in glob.glob(os.path.join(V, "units", "*", "unit.rs.tmpl")):
    u = os.path.basename(os.path.dirname(t))
    s = open(t).read()
    for m in re.finditer(r'//@(?:BODY|INLINE)[^\n]*?fn=("[^"]+"|\S+)', s):
        bodies.add(m.group(1).strip('"').split("::")[-1])
    for m in re.finditer(r'#\[verifier::external_body\]\s*(?:#\[[^\]]*\]\s*)*(?:pub(?:\([a-z]+\))?\s+)?fn\s+(\w+)', s):
        if not m.group(1).startswith("__"):
            ext.setdefault(m.group(1), set()).add(u)
out = subprocess.run(f"grep -rhoE 'fn [a-z_0-9]+' {REPO} --include=*.rs --exclude-dir=target | sort | uniq -c", shell=True, capture_output=True, text=True).stdout
repo = {l.split()[2]: int(l.split()[0]) for l in out.strip().split("\n") if len(l.split()) == 3}
STD = set("new clone eq len get insert remove push from default cmp partial_cmp now is_empty contains contains_key iter clear first last values keys to_vec as_ref into hash fmt deref elapsed add sub to_string as_bytes to_bytes from_bytes finish next send write read parse from_str push_str as_str take extend retain entry sort truncate join update serialize wait to".split())
for n in sorted(ext):
    if n in repo and n not in bodies and n not in STD:
        print(f"{n:45s} units={','.join(sorted(ext[n]))}  definitions in repo={repo[n]}")
