"""R15: calls of a helper that the unit has no stand-in for, but that is defined in the same source file, are replaced by the
helper's body (and an unknown SCREAMING_CASE constant by a `let` with its definition).

This is what keeps an "extract helper" refactoring decidable: the contract stays on the function the property talks
about, and the helper's statements are judged inside it. Only simple helpers are inlined — no `return`, no `?`, no `.await`,
not recursive — so that replacing the call by `{ let <param> = <arg>; … <body> }` preserves the meaning. The receiver may be
`self` (or a `Self::` / free call) or, R15b, any simple postfix expression `RECV.helper(..)`: the helper's `self` is then bound
by `let __self_k = &RECV;` (`&mut` / by value as the helper declares) and renamed in its body. The helper is looked up in the
same file first and then, R15b, in the other source files of the same crate. Anything else is left alone (the body then
stays ill-typed and the obligation UNDECIDED, as before)."""
import glob
import os
import re
from lex import lex, match_close, locate, find_impls
from extract import Source, LostAnchor


class VirtualSource(Source):
    def __init__(self, path, text):      # noqa: super().__init__ reads the file; here the text is given
        self.path = path
        self.src = text
        self.toks = lex(text)
        self.line_starts = [0]
        for m in re.finditer("\n", text):
            self.line_starts.append(m.end())


def _split_args(toks, a, b):
    """token index ranges of the comma-separated items strictly inside toks[a] '(' .. toks[b] ')'"""
    out, depth, s = [], 0, a + 1
    for k in range(a + 1, b):
        t = toks[k].text
        if t in ("(", "[", "{"):
            depth += 1
        elif t in (")", "]", "}"):
            depth -= 1
        elif t == "," and depth == 0:
            out.append((s, k))
            s = k + 1
    if s < b:
        out.append((s, b))
    return out


def _helper(toks, type_name, name):
    for q in ([f"{type_name}::{name}"] if type_name else []) + [name]:
        r = locate(toks, q)
        if r is not None:
            return r
    return None


def _find_fn_anywhere(toks, name):
    """`fn name` at any depth (a method of any impl in the file)"""
    for i in range(len(toks) - 1):
        if toks[i].kind == "ident" and toks[i].text == "fn" and toks[i + 1].kind == "ident" and toks[i + 1].text == name:
            from lex import find_fn
            return find_fn(toks, name, i, len(toks))
    return None


def _crate_files(path):
    d = os.path.dirname(os.path.abspath(path))
    while d != "/" and not os.path.exists(os.path.join(d, "Cargo.toml")):
        d = os.path.dirname(d)
    return [f for f in sorted(glob.glob(os.path.join(d, "src", "**", "*.rs"), recursive=True)) if os.path.abspath(f) != os.path.abspath(path)]


def _top_stmts(text):
    """top-level statements of a block's inner text -> list of source strings (the last may be a tail expression)"""
    toks = lex(text)
    out = []
    i = 0
    n = len(toks)
    while i < n:
        a = i
        depth = 0
        first = toks[i].text
        blocklike = first in ("if", "match", "for", "while", "loop", "unsafe") or first == "{"
        j = i
        while j < n:
            t = toks[j].text
            if t in ("(", "[", "{"):
                depth += 1
            elif t in (")", "]", "}"):
                depth -= 1
                if depth == 0 and t == "}" and blocklike:
                    nxt = toks[j + 1].text if j + 1 < n else None
                    if nxt == "else":
                        j += 1
                        continue
                    if nxt in (".", "?"):
                        blocklike = False     # the block is the head of a longer expression
                    else:
                        if nxt == ";":
                            j += 1
                        break
            elif t == ";" and depth == 0:
                break
            j += 1
        j = min(j, n - 1)
        out.append(text[toks[a].start:toks[j].end])
        i = j + 1
    return out


def _has_exit(text):
    return any((t.kind == "ident" and t.text in ("return", "await")) or t.text == "?" for t in lex(text))


def _eliminate_early_exits(text):
    """`if c { ..; return E; } REST` -> `if c { ..; E } else { REST }`; `return E;` -> `E`; `X?; REST` / `let p = X?; REST` -> a match on X
    whose Err arm yields the error unchanged (a differing error type then fails to compile -> undecided). None when any other
    `return` / `?` / `.await` remains."""
    return _elim(_top_stmts(text))


def _elim(stmts):
    if not stmts:
        return ""
    s, rest = stmts[0], stmts[1:]
    toks = lex(s)
    if not toks:
        return _elim(rest)
    tx = [t.text for t in toks]
    if not _has_exit(s):
        r = _elim(rest)
        return None if r is None else s + "\n" + r
    if tx[0] == "return":
        e = s[toks[0].end:toks[-1].start] if tx[-1] == ";" else s[toks[0].end:]
        return None if _has_exit(e) or not e.strip() else e.strip()
    if tx[0] == "if" and tx[1] != "let":
        # find the block
        k = 1
        depth = 0
        while k < len(toks) and not (toks[k].text == "{" and depth == 0):
            if toks[k].text in ("(", "["):
                depth += 1
            elif toks[k].text in (")", "]"):
                depth -= 1
            k += 1
        if k >= len(toks):
            return None
        c = match_close(toks, k)
        if c != len(toks) - 1:
            return None       # an else branch: not handled
        cond = s[toks[0].end:toks[k].start]
        if _has_exit(cond):
            return None
        inner = _top_stmts(s[toks[k].end:toks[c].start])
        if not inner:
            return None
        last = lex(inner[-1])
        if not last or last[0].text != "return":
            return None
        e = inner[-1][last[0].end:last[-1].start] if last[-1].text == ";" else inner[-1][last[0].end:]
        prefix = "\n".join(inner[:-1])
        if _has_exit(prefix) or _has_exit(e) or not e.strip():
            return None
        r = _elim(rest)
        if r is None:
            return None
        return f"if {cond.strip()} {{ {prefix} {e.strip()} }} else {{ {r} }}"
    if tx[-1] == ";" and len(tx) >= 3 and tx[-2] == "?":
        if tx[0] == "let":
            # let PAT = EXPR?;
            depth = 0
            eq = None
            for k, t in enumerate(toks):
                if t.text in ("(", "[", "{", "<"):
                    depth += 1
                elif t.text in (")", "]", "}", ">"):
                    depth -= 1
                elif t.text == "=" and depth == 0:
                    eq = k
                    break
            if eq is None:
                return None
            pat = s[toks[0].end:toks[eq].start].strip()
            expr = s[toks[eq].end:toks[-2].start].strip()
            if _has_exit(expr):
                return None
            r = _elim(rest)
            if r is None:
                return None
            return f"match {expr} {{ Err(__e) => Err(__e), Ok(__v) => {{ let {pat} = __v; {r} }} }}"
        expr = s[:toks[-2].start].strip()
        if _has_exit(expr):
            return None
        r = _elim(rest)
        if r is None:
            return None
        return f"match {expr} {{ Err(__e) => Err(__e), Ok(_) => {{ {r} }} }}"
    return None


def _sink_local(source, toks, src, bopen, bclose, name, edits, report):
    """R17: `name` is an immutable local of the enclosing function, bound by `let name[: T] = EXPR;` at the top level of its body, and
    a lifted closure / fragment uses it without containing the binding (a computation hoisted out of a closure or loop). When EXPR
    reads no `self`, no `mut` binding, and has no `?` / `.await` / block, every later use of `name` is replaced by `(EXPR)`: the only
    difference is WHEN EXPR is evaluated, which such an EXPR cannot observe except through the outside world (clock, environment)."""
    k = bopen + 1
    depth = 0
    found = None
    while k < bclose:
        t = toks[k]
        if t.text in ("(", "[", "{"):
            depth += 1
        elif t.text in (")", "]", "}"):
            depth -= 1
        elif depth == 0 and t.kind == "ident" and t.text == "let" and toks[k + 1].text == name and toks[k + 2].text in ("=", ":"):
            j = k + 2
            d2 = 0
            eq = None
            while j < bclose:
                tj = toks[j].text
                if tj in ("(", "[", "{", "<"):
                    d2 += 1
                elif tj in (")", "]", "}", ">"):
                    d2 -= 1
                elif tj == "=" and d2 == 0 and eq is None:
                    eq = j
                elif tj == ";" and d2 == 0:
                    break
                j += 1
            if eq is not None and j < bclose:
                found = (k, eq, j)
            break
        k += 1
    if found is None:
        return False
    k, eq, semi = found
    etoks = toks[eq + 1:semi]
    if not etoks:
        return False
    if any(t.text in ("?", "{", "|", "||") for t in etoks) or any(t.kind == "ident" and t.text in ("self", "await", "mut", "return", "move") for t in etoks):
        return False
    # variables read by EXPR must not be mutable anywhere in the function
    for q, t in enumerate(etoks):
        if t.kind != "ident" or not re.match(r"^[a-z_][a-z0-9_]*$", t.text):
            continue
        prev = etoks[q - 1].text if q else ""
        nxt = etoks[q + 1].text if q + 1 < len(etoks) else ""
        if prev in (".", "::") or nxt in ("(", "::", "!"):
            continue
        for m in range(bopen - 200 if bopen > 200 else 0, bclose):
            if toks[m].text == "mut" and toks[m + 1].text == t.text:
                return False
    # the name must not be bound again (shadowed) or assigned after the binding
    for m in range(semi, bclose):
        if toks[m].kind == "ident" and toks[m].text == name:
            if toks[m - 1].text in ("let", "mut", "|", "ref") or (toks[m + 1].text == "=" ) or toks[m + 1].text in ("+=", "-="):
                return False
    expr = src[toks[eq + 1].start:toks[semi - 1].end]
    n = 0
    for m in range(semi, bclose):
        t = toks[m]
        if t.kind == "ident" and t.text == name and toks[m - 1].text not in (".", "::") and toks[m + 1].text not in ("::", "(", "!") \
                and not (toks[m + 1].text == ":" and toks[m - 1].text in ("{", ",")):
            # `{name}` inside a format string is not a token, so log lines keep naming the (still existing) local
            edits.append((t.start, t.end, "(" + expr + ")"))
            n += 1
    if not n:
        return False
    report.append(("R17-sink-local", f"{n} use(s) of the immutable local `{name}` (bound at line {source.line_of(toks[k].start)} outside the closure / fragment) replaced by its initialiser `{expr[:60]}`"))
    return True


def _receiver_start(toks, dot_idx):
    """start of the simple postfix expression ending just before the `.` at dot_idx: identifiers, field accesses, `*`/`&` prefixes are
    NOT included; a call or index in the chain makes the receiver not simple (None)"""
    i = dot_idx - 1
    while True:
        t = toks[i]
        if t.kind == "ident" and toks[i - 1].text in (".", "::") and toks[i - 2].kind == "ident":
            i -= 2
            continue
        if t.kind == "ident":
            return i
        return None


def inline_helpers(source, qual, names):
    """returns (new Source, report list); raises LostAnchor when nothing could be inlined"""
    toks, src = source.toks, source.src
    r = locate(toks, qual)
    if r is None:
        raise LostAnchor(f"function {qual} not found")
    fn_idx, bopen, bclose = r
    type_name = qual.split(" for ")[-1].split("::")[0] if "::" in qual.split(" for ")[-1] else None
    edits, report = [], []
    for name in sorted(names):
        if name.isupper() or re.fullmatch(r"[A-Z][A-Z0-9_]*", name):
            # constant: `const NAME: T = expr;` anywhere in the file -> `let NAME: T = expr;` at the top of the body
            for i in range(len(toks) - 4):
                if toks[i].text == "const" and toks[i + 1].text == name and toks[i + 2].text == ":":
                    j = i
                    while toks[j].text != ";":
                        j += 1
                    text = "#[allow(non_snake_case)] let " + src[toks[i + 1].start:toks[j].end]
                    edits.append((toks[bopen].end, toks[bopen].end, "\n" + text + "\n"))
                    report.append(("R15-const", f"constant {name} (line {source.line_of(toks[i].start)}) bound at the top of the body"))
                    break
            continue
        if _sink_local(source, toks, src, bopen, bclose, name, edits, report):
            continue
        h = _helper(toks, type_name, name)
        h_toks, h_src, h_where = toks, src, None
        if h is None:
            h = _find_fn_anywhere(toks, name)
        if h is None:
            # R15b: the other source files of the same crate
            for other in _crate_files(source.path):
                try:
                    otxt = open(other).read()
                except OSError:
                    continue
                if ("fn " + name) not in otxt:
                    continue
                otoks = lex(otxt)
                h = _find_fn_anywhere(otoks, name)
                if h is not None:
                    h_toks, h_src, h_where = otoks, otxt, os.path.relpath(other, os.path.dirname(source.path))
                    break
        if h is None:
            continue
        h_fn, h_open, h_close = h
        if h_toks is toks and (h_open <= fn_idx <= h_close or (bopen <= h_fn <= bclose)):
            continue
        body_toks = h_toks[h_open + 1:h_close]
        flat_body = None
        if any(t.text in ("return", "await") and t.kind == "ident" for t in body_toks) or any(t.text == "?" for t in body_toks):
            # R15c: early exits at statement level are turned into nested if/else / match, nothing else is attempted
            flat_body = _eliminate_early_exits(h_src[h_toks[h_open].end:h_toks[h_close].start])
            if flat_body is None:
                continue
        if any(t.kind == "ident" and t.text == name and k + 1 < len(body_toks) and body_toks[k + 1].text == "(" for k, t in enumerate(body_toks)):
            continue      # recursive
        if h_toks[h_fn - 1].text == "async":
            continue
        # parameters of the helper
        p_open = h_fn + 2
        while h_toks[p_open].text != "(":
            p_open += 1
        p_close = match_close(h_toks, p_open)
        params = _split_args(h_toks, p_open, p_close)
        has_self = False
        self_bind = ""
        plist = []
        for (a, b) in params:
            seg = h_toks[a:b]
            txt = [t.text for t in seg]
            if "self" in txt and ":" not in txt:
                has_self = True
                self_bind = "&mut " if "mut" in txt and "&" in txt else ("&" if "&" in txt else "")
                continue
            plist.append(h_src[seg[0].start:seg[-1].end])
        h_body_text = h_src[h_toks[h_open].start:h_toks[h_close].end] if flat_body is None else "{ " + flat_body + " }"
        # `Self` inside the helper names the helper's impl type, not the caller's
        h_type = None
        for (ty, _tr, io, ic) in find_impls(h_toks):
            if io < h_fn < ic:
                h_type = ty
        if h_type and h_type != type_name:
            def _deself(text):
                out = text
                for bt in reversed(lex(text)):
                    if bt.kind == "ident" and bt.text == "Self":
                        out = out[:bt.start] + h_type + out[bt.end:]
                return out
            h_body_text = _deself(h_body_text)
            plist = [_deself(q) for q in plist]
        # call sites inside the function body
        k = bopen + 1
        n_sites = 0
        while k < bclose:
            t = toks[k]
            if t.kind == "ident" and t.text == name and toks[k + 1].text == "(":
                start = None
                if has_self and toks[k - 1].text == "." and toks[k - 2].text == "self" and toks[k - 3].text not in (".", "::"):
                    start = k - 2
                elif not has_self and toks[k - 1].text == "::" and toks[k - 2].text in ("Self", type_name):
                    start = k - 2
                elif not has_self and toks[k - 1].text not in (".", "::"):
                    start = k
                body_text = h_body_text
                recv_let = ""
                if start is None and has_self and toks[k - 1].text == ".":
                    # R15b: any simple receiver — the helper's `self` is bound to it and renamed in the body
                    rs = _receiver_start(toks, k - 1)
                    if rs is not None and not (toks[rs].text == "self" and rs == k - 2):      # `self.field.helper(..)` is a simple receiver too (seed C06-12)
                        start = rs
                        sv = f"__self_{len(edits)}"
                        recv_let = f"let {sv} = {self_bind}{src[toks[rs].start:toks[k - 2].end]}; "
                        out_b = []
                        for bt in lex(h_body_text):
                            out_b.append((bt.start, bt.end, sv if (bt.kind == "ident" and bt.text == "self") else None))
                        nb = h_body_text
                        for (a0, b0, rep) in reversed(out_b):
                            if rep:
                                nb = nb[:a0] + rep + nb[b0:]
                        body_text = nb
                if start is not None:
                    c_close = match_close(toks, k + 1)
                    args = _split_args(toks, k + 1, c_close)
                    if len(args) == len(plist):
                        lets = recv_let + "".join(f"let {p} = {src[toks[a].start:toks[b - 1].end]}; " for p, (a, b) in zip(plist, args))
                        block = "({ " + lets + body_text + " })"      # parenthesised: a block followed by `.method()` / `?` must stay one expression
                        edits.append((toks[start].start, toks[c_close].end, block))
                        n_sites += 1
                        k = c_close + 1
                        continue
            k += 1
        if n_sites:
            where = f"defined in {h_where}" if h_where else f"defined at line {source.line_of(toks[h_fn].start)}"
            report.append(("R15-inline", f"{n_sites} call(s) of helper `{name}` ({where}) replaced by its body"))
    if not edits:
        raise LostAnchor(f"{qual}: no simple same-file definition of {', '.join(sorted(names))} to inline")
    out = src
    for (a, b, text) in sorted(edits, key=lambda e: -e[0]):
        out = out[:a] + text + out[b:]
    return VirtualSource(source.path, out), report
