"""R15: calls of a helper that the unit has no stand-in for, but that is defined in the same source file, are replaced by the
helper's body (and an unknown SCREAMING_CASE constant by a `let` with its definition).

This is what keeps an "extract helper" refactoring decidable: the contract stays on the function the property talks
about, and the helper's statements are judged inside it. Only simple helpers are inlined — no `return`, no `?`, no `.await`,
not recursive, receiver literally `self` (or a `Self::` / free call) — so that replacing the call by
`{ let <param> = <arg>; … <body> }` preserves the meaning. Anything else is left alone (the body then stays ill-typed and the
obligation UNDECIDED, as before)."""
import re
from lex import lex, match_close, locate
from extract import Source, LostAnchor


class VirtualSource(Source):
    def __init__(self, path, text):      # noqa: super().__init__ reads the file; here the text is given
        self.path = path
        self.src = text
        self.toks = lex(text)
        self.line_starts = [0]
        for m in re.finditer("\n", text):
            self.line_starts.append(m.end())


def _split_args(toks, a, b):
    """token index ranges of the comma-separated items strictly inside toks[a] '(' .. toks[b] ')'"""
    out, depth, s = [], 0, a + 1
    for k in range(a + 1, b):
        t = toks[k].text
        if t in ("(", "[", "{"):
            depth += 1
        elif t in (")", "]", "}"):
            depth -= 1
        elif t == "," and depth == 0:
            out.append((s, k))
            s = k + 1
    if s < b:
        out.append((s, b))
    return out


def _helper(toks, type_name, name):
    for q in ([f"{type_name}::{name}"] if type_name else []) + [name]:
        r = locate(toks, q)
        if r is not None:
            return r
    return None


def inline_helpers(source, qual, names):
    """returns (new Source, report list); raises LostAnchor when nothing could be inlined"""
    toks, src = source.toks, source.src
    r = locate(toks, qual)
    if r is None:
        raise LostAnchor(f"function {qual} not found")
    fn_idx, bopen, bclose = r
    type_name = qual.split(" for ")[-1].split("::")[0] if "::" in qual.split(" for ")[-1] else None
    edits, report = [], []
    for name in sorted(names):
        if name.isupper() or re.fullmatch(r"[A-Z][A-Z0-9_]*", name):
            # constant: `const NAME: T = expr;` anywhere in the file -> `let NAME: T = expr;` at the top of the body
            for i in range(len(toks) - 4):
                if toks[i].text == "const" and toks[i + 1].text == name and toks[i + 2].text == ":":
                    j = i
                    while toks[j].text != ";":
                        j += 1
                    text = "#[allow(non_snake_case)] let " + src[toks[i + 1].start:toks[j].end]
                    edits.append((toks[bopen].end, toks[bopen].end, "\n" + text + "\n"))
                    report.append(("R15-const", f"constant {name} (line {source.line_of(toks[i].start)}) bound at the top of the body"))
                    break
            continue
        h = _helper(toks, type_name, name)
        if h is None:
            continue
        h_fn, h_open, h_close = h
        if h_open <= fn_idx <= h_close or (bopen <= h_fn <= bclose):
            continue
        body_toks = toks[h_open + 1:h_close]
        if any(t.text in ("return", "await") and t.kind == "ident" for t in body_toks) or any(t.text == "?" for t in body_toks):
            continue
        if any(t.kind == "ident" and t.text == name and k + 1 < len(body_toks) and body_toks[k + 1].text == "(" for k, t in enumerate(body_toks)):
            continue      # recursive
        if toks[h_fn - 1].text == "async":
            continue
        # parameters of the helper
        p_open = h_fn + 2
        while toks[p_open].text != "(":
            p_open += 1
        p_close = match_close(toks, p_open)
        params = _split_args(toks, p_open, p_close)
        has_self = False
        plist = []
        for (a, b) in params:
            seg = toks[a:b]
            txt = [t.text for t in seg]
            if "self" in txt and ":" not in txt:
                has_self = True
                continue
            plist.append(src[seg[0].start:seg[-1].end])
        # call sites inside the function body
        k = bopen + 1
        n_sites = 0
        while k < bclose:
            t = toks[k]
            if t.kind == "ident" and t.text == name and toks[k + 1].text == "(":
                start = None
                if has_self and toks[k - 1].text == "." and toks[k - 2].text == "self" and toks[k - 3].text not in (".", "::"):
                    start = k - 2
                elif not has_self and toks[k - 1].text == "::" and toks[k - 2].text in ("Self", type_name):
                    start = k - 2
                elif not has_self and toks[k - 1].text not in (".", "::"):
                    start = k
                if start is not None:
                    c_close = match_close(toks, k + 1)
                    args = _split_args(toks, k + 1, c_close)
                    if len(args) == len(plist):
                        lets = "".join(f"let {p} = {src[toks[a].start:toks[b - 1].end]}; " for p, (a, b) in zip(plist, args))
                        block = "{ " + lets + src[toks[h_open].start:toks[h_close].end] + " }"
                        edits.append((toks[start].start, toks[c_close].end, block))
                        n_sites += 1
                        k = c_close + 1
                        continue
            k += 1
        if n_sites:
            report.append(("R15-inline", f"{n_sites} call(s) of helper `{name}` (defined at line {source.line_of(toks[h_fn].start)}) replaced by its body"))
    if not edits:
        raise LostAnchor(f"{qual}: no simple same-file definition of {', '.join(sorted(names))} to inline")
    out = src
    for (a, b, text) in sorted(edits, key=lambda e: -e[0]):
        out = out[:a] + text + out[b:]
    return VirtualSource(source.path, out), report
