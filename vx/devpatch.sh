#!/bin/sh
# developer aid: apply a patch file to a scratch copy of /repo and run one property's quick check there (generated unit kept in /tmp/mutbuild)
pf="$1"; prop="$2"
rm -rf /tmp/mut /tmp/mutbuild /tmp/mutev; rsync -a --exclude target --exclude .git /repo/ /tmp/mut/
( cd /tmp/mut && patch -p1 -s < "$pf" )
VERIF_REPO=/tmp/mut VERIF_BUILD=/tmp/mutbuild VERIF_EVIDENCE_DIR=/tmp/mutev /verif/check "$prop" --no-kani 2>&1 | grep -v "^KNOWN-FINDING"
