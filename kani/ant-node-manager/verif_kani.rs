//! Kani harnesses for ant-node-manager (injected under cfg(kani)); full u16 domains, loop-free: complete.
use crate::add_services::config::PortRange;
use crate::helpers::increment_port_option;

/// C17 (complete, pairs parsers::increment_port_option): never overflows; next port is p+1 when that is a port
#[kani::proof]
fn increment_port_option_total() {
    let p: Option<u16> = kani::any();
    let r = increment_port_option(p);
    match p {
        None => assert!(r.is_none()),
        Some(v) => { if v < u16::MAX { assert!(r == Some(v + 1)); } }
    }
}

// kani-compiler 0.68 cannot compile code reaching catch_unwind / thread_local destructors, which the tracing macros do:
// every harness whose function logs carries these three stubs (logging is off, nothing else changes)
mod tstubs {
    pub fn is_enabled(_m: &tracing::Metadata<'static>, _i: tracing::subscriber::Interest) -> bool { false }
    pub fn interest(_c: &'static tracing::callsite::DefaultCallsite) -> tracing::subscriber::Interest { tracing::subscriber::Interest::never() }
    pub fn dispatch<'a>(_m: &'static tracing::Metadata<'static>, _f: &'a tracing::field::ValueSet<'_>) where 'a: 'a {}
}

/// C17 (complete, pairs parsers::PortRange::validate): no overflow for any well-formed range and any count
#[kani::proof]
#[kani::stub(tracing::__macro_support::__is_enabled, tstubs::is_enabled)]
#[kani::stub(tracing::callsite::DefaultCallsite::interest, tstubs::interest)]
#[kani::stub(tracing::Event::dispatch, tstubs::dispatch)]
fn port_range_validate_total() {
    let a: u16 = kani::any();
    let b: u16 = kani::any();
    let count: u16 = kani::any();
    kani::assume(a <= b);
    let r = PortRange::Range(a, b).validate(count);
    assert!(r.is_ok() == (count as u32 == b as u32 - a as u32 + 1));
}
