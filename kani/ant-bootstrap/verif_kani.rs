//! Kani harness for ant-bootstrap (injected under cfg(kani)).
use crate::BootstrapAddr;
use libp2p::Multiaddr;
use std::time::SystemTime;

/// C17/C18 (complete over both u32 counters; the f64 result itself is not constrained): failure_rate never overflows
#[kani::proof]
fn failure_rate_total() {
    let a = BootstrapAddr {
        addr: Multiaddr::empty(),
        success_count: kani::any(),
        failure_count: kani::any(),
        last_seen: SystemTime::UNIX_EPOCH,
    };
    let _ = a.failure_rate();
}

mod tstubs {
    pub fn is_enabled(_m: &tracing::Metadata<'static>, _i: tracing::subscriber::Interest) -> bool { false }
    pub fn interest(_c: &'static tracing::callsite::DefaultCallsite) -> tracing::subscriber::Interest { tracing::subscriber::Interest::never() }
    pub fn dispatch<'a>(_m: &'static tracing::Metadata<'static>, _f: &'a tracing::field::ValueSet<'_>) where 'a: 'a {}
}

fn now_stub() -> SystemTime {
    SystemTime::UNIX_EPOCH
}

/// C17/C18 (complete over both u32 counters and the flag): update_status never overflows, increments the right counter or
/// restarts it at 1, and never touches the address
#[kani::proof]
#[kani::stub(std::time::SystemTime::now, now_stub)]
fn update_status_total() {
    let s: u32 = kani::any();
    let f: u32 = kani::any();
    let success: bool = kani::any();
    let mut a = BootstrapAddr { addr: Multiaddr::empty(), success_count: s, failure_count: f, last_seen: SystemTime::UNIX_EPOCH };
    a.update_status(success);
    if success {
        assert!(a.success_count == if s == u32::MAX { 1 } else { s + 1 });
        assert!(a.failure_count == if s == u32::MAX { 0 } else { f });
    } else {
        assert!(a.failure_count == if f == u32::MAX { 1 } else { f + 1 });
        assert!(a.success_count == if f == u32::MAX { 0 } else { s });
    }
}

/// C17/C18 (complete over the four u32 counters; the two timestamps are either equal or ordered): sync never overflows
#[kani::proof]
#[kani::stub(tracing::__macro_support::__is_enabled, tstubs::is_enabled)]
#[kani::stub(tracing::callsite::DefaultCallsite::interest, tstubs::interest)]
#[kani::stub(tracing::Event::dispatch, tstubs::dispatch)]
fn sync_total() {
    let s1: u32 = kani::any();
    let f1: u32 = kani::any();
    let s2: u32 = kani::any();
    let f2: u32 = kani::any();
    let same_time: bool = kani::any();
    let t1 = SystemTime::UNIX_EPOCH;
    let t2 = if same_time { t1 } else { SystemTime::UNIX_EPOCH + std::time::Duration::from_secs(1) };
    let mut a = BootstrapAddr { addr: Multiaddr::empty(), success_count: s1, failure_count: f1, last_seen: t1 };
    let b = BootstrapAddr { addr: Multiaddr::empty(), success_count: s2, failure_count: f2, last_seen: t2 };
    a.sync(&b);
    if same_time {
        assert!(a.success_count == s1 && a.failure_count == f1);
    } else {
        let s = s1 as u64 + s2 as u64;
        let f = f1 as u64 + f2 as u64;
        if s >= u32::MAX as u64 {
            assert!(a.success_count == 1 && a.failure_count == 0);
        } else if f >= u32::MAX as u64 {
            assert!(a.failure_count == 1 && a.success_count == 0);
        } else {
            assert!(a.success_count as u64 == s && a.failure_count as u64 == f);
        }
    }
}
