//! Kani harness for ant-bootstrap (injected under cfg(kani)).
use crate::BootstrapAddr;
use libp2p::Multiaddr;
use std::time::SystemTime;

/// C17/C18 (complete over both u32 counters; the f64 result itself is not constrained): failure_rate never overflows
#[kani::proof]
fn failure_rate_total() {
    let a = BootstrapAddr {
        addr: Multiaddr::empty(),
        success_count: kani::any(),
        failure_count: kani::any(),
        last_seen: SystemTime::UNIX_EPOCH,
    };
    let _ = a.failure_rate();
}
