//! Kani harness for ant-registers (injected under cfg(kani)). BOUNDED stand-in: 4 symbolic ASCII bytes.
use crate::RegisterAddress;

#[kani::proof]
#[kani::unwind(12)]
fn from_hex_bounded() {
    let b: [u8; 4] = kani::any();
    kani::assume(b[0] < 128 && b[1] < 128 && b[2] < 128 && b[3] < 128);
    if let Ok(s) = core::str::from_utf8(&b) {
        let _ = RegisterAddress::from_hex(s);
    }
}
