//! Kani harnesses injected (under cfg(kani)) into a scratch copy of ant-evm by /verif/vx/kani.py.
//! Loop-free harnesses over the full input domain are complete proofs on the real crate.
use crate::amount::AttoTokens;
use crate::Amount;

fn any_amount() -> Amount {
    let limbs: [u64; 4] = kani::any();
    Amount::from_limbs(limbs)
}

/// independent 4-limb carry specification of 256-bit addition
fn spec_add(a: [u64; 4], b: [u64; 4]) -> ([u64; 4], bool) {
    let mut out = [0u64; 4];
    let mut carry = 0u128;
    let mut i = 0;
    while i < 4 {
        let s = a[i] as u128 + b[i] as u128 + carry;
        out[i] = s as u64;
        carry = s >> 64;
        i += 1;
    }
    (out, carry != 0)
}
fn spec_sub(a: [u64; 4], b: [u64; 4]) -> ([u64; 4], bool) {
    let mut out = [0u64; 4];
    let mut borrow = 0i128;
    let mut i = 0;
    while i < 4 {
        let d = a[i] as i128 - b[i] as i128 - borrow;
        if d < 0 { out[i] = (d + (1i128 << 64)) as u64; borrow = 1; } else { out[i] = d as u64; borrow = 0; }
        i += 1;
    }
    (out, borrow != 0)
}

/// C16-T1 (complete): checked_add is exact or None, for all 2^256 x 2^256 pairs
#[kani::proof]
#[kani::unwind(9)]
fn checked_add_complete() {
    let a = any_amount();
    let b = any_amount();
    let (sum, overflow) = spec_add(*a.as_limbs(), *b.as_limbs());
    match AttoTokens::from_atto(a).checked_add(AttoTokens::from_atto(b)) {
        Some(r) => { assert!(!overflow); let l = *r.as_atto().as_limbs(); assert!(l[0] == sum[0] && l[1] == sum[1] && l[2] == sum[2] && l[3] == sum[3]); }
        None => assert!(overflow),
    }
}

/// C16-T1 (complete): checked_sub is exact or None
#[kani::proof]
#[kani::unwind(9)]
fn checked_sub_complete() {
    let a = any_amount();
    let b = any_amount();
    let (diff, underflow) = spec_sub(*a.as_limbs(), *b.as_limbs());
    match AttoTokens::from_atto(a).checked_sub(AttoTokens::from_atto(b)) {
        Some(r) => { assert!(!underflow); let l = *r.as_atto().as_limbs(); assert!(l[0] == diff[0] && l[1] == diff[1] && l[2] == diff[2] && l[3] == diff[3]); }
        None => assert!(underflow),
    }
}

// ---- C13: PaymentQuote::has_expired against the clock (now stubbed to a symbolic instant)
use crate::data_payments::{PaymentQuote, QUOTE_EXPIRATION_SECS};
use std::time::{Duration, SystemTime};

static mut NOW_SECS: u64 = 0;
static mut NOW_NANOS: u32 = 0;
fn now_stub() -> SystemTime {
    unsafe { SystemTime::UNIX_EPOCH + Duration::new(NOW_SECS, NOW_NANOS) }
}

/// NOT REGISTERED (kani/harnesses.json): CBMC did not finish this harness within 25 minutes (SystemTime/Duration arithmetic).
/// C13-T3 (complete over every clock reading and every quote timestamp below 2^40 s, nanosecond resolution): a quote is
/// expired exactly when it is from the future or its age in whole seconds exceeds the limit
#[kani::proof]
#[kani::stub(std::time::SystemTime::now, now_stub)]
fn has_expired_complete() {
    let now_s: u64 = kani::any();
    let now_n: u32 = kani::any();
    let q_s: u64 = kani::any();
    let q_n: u32 = kani::any();
    kani::assume(now_s < (1u64 << 40) && q_s < (1u64 << 40) && now_n < 1_000_000_000 && q_n < 1_000_000_000);
    unsafe { NOW_SECS = now_s; NOW_NANOS = now_n; }
    let q = PaymentQuote {
        content: Default::default(),
        timestamp: SystemTime::UNIX_EPOCH + Duration::new(q_s, q_n),
        quoting_metrics: Default::default(),
        rewards_address: crate::RewardsAddress::ZERO,
        pub_key: vec![],
        signature: vec![],
    };
    let r = q.has_expired();
    let later = q_s > now_s || (q_s == now_s && q_n > now_n);
    if later {
        assert!(r);
    } else {
        // whole seconds elapsed (the sub-second part borrows one second when needed): no division involved
        let age_s = now_s - q_s - if now_n < q_n { 1 } else { 0 };
        assert!(r == (age_s > QUOTE_EXPIRATION_SECS));
    }
}
