//! Kani harnesses for ant-protocol (injected under cfg(kani)): the real rmp-serde encoder/decoder on each concrete kind.
//! Eight harnesses, one per kind: the finite domain is enumerated completely (a symbolic kind does not terminate in practice).
use crate::storage::{RecordHeader, RecordKind};

mod tstubs {
    pub fn is_enabled(_m: &tracing::Metadata<'static>, _i: tracing::subscriber::Interest) -> bool { false }
    pub fn interest(_c: &'static tracing::callsite::DefaultCallsite) -> tracing::subscriber::Interest { tracing::subscriber::Interest::never() }
    pub fn dispatch<'a>(_m: &'static tracing::Metadata<'static>, _f: &'a tracing::field::ValueSet<'_>) where 'a: 'a {}
}

fn check(kind: RecordKind, tag: u8) {
    let bytes = RecordHeader { kind }.try_serialize();
    match bytes {
        Ok(b) => {
            assert!(b.len() == RecordHeader::SIZE);
            assert!(b[0] == 0x91);
            assert!(b[1] == tag);
            let back = RecordHeader::try_deserialize(&b);
            match back { Ok(h) => assert!(h.kind == kind), Err(_) => assert!(false) }
        }
        Err(_) => assert!(false),
    }
}

#[kani::proof]
#[kani::unwind(8)]
#[kani::stub(tracing::__macro_support::__is_enabled, tstubs::is_enabled)]
#[kani::stub(tracing::callsite::DefaultCallsite::interest, tstubs::interest)]
#[kani::stub(tracing::Event::dispatch, tstubs::dispatch)]
fn header_bytes_chunk() { check(RecordKind::Chunk, 1); }

#[kani::proof]
#[kani::unwind(8)]
#[kani::stub(tracing::__macro_support::__is_enabled, tstubs::is_enabled)]
#[kani::stub(tracing::callsite::DefaultCallsite::interest, tstubs::interest)]
#[kani::stub(tracing::Event::dispatch, tstubs::dispatch)]
fn header_bytes_chunkwithpayment() { check(RecordKind::ChunkWithPayment, 0); }

#[kani::proof]
#[kani::unwind(8)]
#[kani::stub(tracing::__macro_support::__is_enabled, tstubs::is_enabled)]
#[kani::stub(tracing::callsite::DefaultCallsite::interest, tstubs::interest)]
#[kani::stub(tracing::Event::dispatch, tstubs::dispatch)]
fn header_bytes_transaction() { check(RecordKind::Transaction, 2); }

#[kani::proof]
#[kani::unwind(8)]
#[kani::stub(tracing::__macro_support::__is_enabled, tstubs::is_enabled)]
#[kani::stub(tracing::callsite::DefaultCallsite::interest, tstubs::interest)]
#[kani::stub(tracing::Event::dispatch, tstubs::dispatch)]
fn header_bytes_transactionwithpayment() { check(RecordKind::TransactionWithPayment, 7); }

#[kani::proof]
#[kani::unwind(8)]
#[kani::stub(tracing::__macro_support::__is_enabled, tstubs::is_enabled)]
#[kani::stub(tracing::callsite::DefaultCallsite::interest, tstubs::interest)]
#[kani::stub(tracing::Event::dispatch, tstubs::dispatch)]
fn header_bytes_register() { check(RecordKind::Register, 3); }

#[kani::proof]
#[kani::unwind(8)]
#[kani::stub(tracing::__macro_support::__is_enabled, tstubs::is_enabled)]
#[kani::stub(tracing::callsite::DefaultCallsite::interest, tstubs::interest)]
#[kani::stub(tracing::Event::dispatch, tstubs::dispatch)]
fn header_bytes_registerwithpayment() { check(RecordKind::RegisterWithPayment, 4); }

#[kani::proof]
#[kani::unwind(8)]
#[kani::stub(tracing::__macro_support::__is_enabled, tstubs::is_enabled)]
#[kani::stub(tracing::callsite::DefaultCallsite::interest, tstubs::interest)]
#[kani::stub(tracing::Event::dispatch, tstubs::dispatch)]
fn header_bytes_scratchpad() { check(RecordKind::Scratchpad, 5); }

#[kani::proof]
#[kani::unwind(8)]
#[kani::stub(tracing::__macro_support::__is_enabled, tstubs::is_enabled)]
#[kani::stub(tracing::callsite::DefaultCallsite::interest, tstubs::interest)]
#[kani::stub(tracing::Event::dispatch, tstubs::dispatch)]
fn header_bytes_scratchpadwithpayment() { check(RecordKind::ScratchpadWithPayment, 6); }
