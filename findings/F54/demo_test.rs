    // ---- C07 (second audit), finding 1: a delivery that starts after the previous delivery for the
    // ---- same key has returned Ok can still be served the state from before that delivery.
    // ---- Appended inside `mod tests` of ant-node/src/node.rs (it builds a `Node`, whose fields are
    // ---- private to this file). A real Node over a real SwarmDriver and record store is used.
    use ant_protocol::storage::{
        try_deserialize_record, try_serialize_record, RecordKind, Scratchpad, Transaction,
    };
    use libp2p::kad::{Record, RecordKey};

    /// A node as `NodeBuilder::build_and_run` makes it, without the event loop: deliveries are made
    /// by calling the handlers the event loop calls.
    fn c07_build_node(root: std::path::PathBuf) -> (Node, Receiver<NetworkEvent>) {
        let keypair = Keypair::generate_ed25519();
        let mut nb = NetworkBuilder::new(keypair, false);
        nb.listen_addr("127.0.0.1:0".parse().unwrap());
        let (network, events_rx, swarm_driver) = nb.build_node(root).unwrap();
        let node = Node {
            inner: Arc::new(NodeInner {
                network,
                events_channel: NodeEventsChannel::default(),
                initial_peers: vec![],
                reward_address: RewardsAddress::default(),
                #[cfg(feature = "open-metrics")]
                metrics_recorder: None,
                evm_network: EvmNetwork::default(),
            }),
        };
        let _handle = spawn(swarm_driver.run());
        (node, events_rx)
    }

    fn c07_pad_record(pad: &Scratchpad) -> Record {
        Record {
            key: NetworkAddress::ScratchpadAddress(*pad.address()).to_record_key(),
            value: try_serialize_record(pad, RecordKind::Scratchpad)
                .unwrap()
                .to_vec(),
            publisher: None,
            expires: None,
        }
    }

    fn c07_tx_record(txs: &Vec<Transaction>) -> Record {
        Record {
            key: NetworkAddress::from_transaction_address(txs[0].address()).to_record_key(),
            value: try_serialize_record(txs, RecordKind::Transaction)
                .unwrap()
                .to_vec(),
            publisher: None,
            expires: None,
        }
    }

    async fn c07_wait_indexed(node: &Node, key: &RecordKey) {
        for _ in 0..100 {
            if node
                .network()
                .is_record_key_present_locally(key)
                .await
                .unwrap()
            {
                return;
            }
            tokio::time::sleep(Duration::from_millis(50)).await;
        }
        panic!("record was never indexed");
    }

    /// The node holds counter 1 (written and indexed). Counter 3 is delivered and its handler
    /// returns Ok. Only after that, counter 2 is delivered. `gap` is slept between the two.
    /// Returns (result of the second delivery, counter stored in the end).
    ///
    /// The one no-op task switch before the first delivery only fixes where the handler is in
    /// tokio's LIFO-slot budget (3 polls) when it is polled, which is otherwise a matter of what
    /// else the worker thread has just run; with it the outcome is the same on every run.
    async fn c07_pad_3_then_2(gap: Duration) -> (Result<()>, u64) {
        let dir = tempfile::tempdir().unwrap();
        let (node, mut events_rx) = c07_build_node(dir.path().to_path_buf());
        let _drain = spawn(async move { while events_rx.recv().await.is_some() {} });
        tokio::time::sleep(Duration::from_secs(1)).await;

        let sk = bls::SecretKey::random();
        let mut pad = Scratchpad::new(sk.public_key(), 0);
        let _ = pad.update_and_sign(Bytes::from_static(b"one"), &sk);
        let v1 = pad.clone();
        let _ = pad.update_and_sign(Bytes::from_static(b"two"), &sk);
        let v2 = pad.clone();
        let _ = pad.update_and_sign(Bytes::from_static(b"three"), &sk);
        let v3 = pad.clone();
        assert!(v1.is_valid() && v2.is_valid() && v3.is_valid());
        assert_eq!((v1.count(), v2.count(), v3.count()), (1, 2, 3));
        let key = c07_pad_record(&v1).key;

        node.store_replicated_in_record(c07_pad_record(&v1))
            .await
            .unwrap();
        c07_wait_indexed(&node, &key).await;
        tokio::time::sleep(Duration::from_millis(500)).await;

        let n = node.clone();
        let second = spawn(async move {
            spawn(async {}).await.unwrap();
            // first delivery: counter 3, handled to the end
            n.store_replicated_in_record(c07_pad_record(&v3))
                .await
                .unwrap();
            if !gap.is_zero() {
                tokio::time::sleep(gap).await;
            }
            // second delivery, started after the first one has returned: counter 2
            n.store_replicated_in_record(c07_pad_record(&v2)).await
        })
        .await
        .unwrap();

        // let every write finish
        tokio::time::sleep(Duration::from_secs(1)).await;
        let local = node
            .network()
            .get_local_record(&key)
            .await
            .unwrap()
            .unwrap();
        let stored: Scratchpad = try_deserialize_record(&local).unwrap();
        println!(
            "gap {gap:?}: second delivery (counter 2) -> {second:?}, stored counter {}",
            stored.count()
        );
        (second, stored.count())
    }

    /// Control: with a pause between the two deliveries the node does what the property says.
    #[tokio::test(flavor = "multi_thread", worker_threads = 1)]
    async fn c07_scratchpad_3_then_2_with_a_pause_is_refused() {
        let (second, stored) = c07_pad_3_then_2(Duration::from_millis(300)).await;
        assert!(matches!(second, Err(crate::Error::IgnoringOutdatedScratchpadPut)));
        assert_eq!(stored, 3);
    }

    /// FAILS: counter 3 was accepted (handler returned Ok), then counter 2 is accepted as well and
    /// is what the node holds in the end.
    #[tokio::test(flavor = "multi_thread", worker_threads = 1)]
    async fn c07_scratchpad_3_then_2_back_to_back_must_not_regress() {
        let (second, stored) = c07_pad_3_then_2(Duration::ZERO).await;
        assert_eq!(
            stored, 3,
            "the stored counter went 1 -> 3 -> 2 (second delivery returned {second:?})"
        );
        assert!(matches!(second, Err(crate::Error::IgnoringOutdatedScratchpadPut)));
    }

    /// FAILS: {t1} is delivered and the handler returns Ok, then {t2} (same owner) is delivered;
    /// the stored set must be {t1, t2}, one of the two is lost.
    #[tokio::test(flavor = "multi_thread", worker_threads = 1)]
    async fn c07_transactions_back_to_back_must_both_be_kept() {
        let dir = tempfile::tempdir().unwrap();
        let (node, mut events_rx) = c07_build_node(dir.path().to_path_buf());
        let _drain = spawn(async move { while events_rx.recv().await.is_some() {} });
        tokio::time::sleep(Duration::from_secs(1)).await;

        let sk = bls::SecretKey::random();
        let pk = sk.public_key();
        let t1 = Transaction::new(pk, vec![], [1u8; 32], vec![], &sk);
        let t2 = Transaction::new(pk, vec![], [2u8; 32], vec![], &sk);
        assert!(t1.verify() && t2.verify());
        let rec1 = c07_tx_record(&vec![t1.clone()]);
        let rec2 = c07_tx_record(&vec![t2.clone()]);
        let key = rec1.key.clone();

        let n = node.clone();
        spawn(async move {
            spawn(async {}).await.unwrap();
            n.store_replicated_in_record(rec1).await.unwrap();
            // started after the first delivery has returned Ok
            n.store_replicated_in_record(rec2).await.unwrap();
        })
        .await
        .unwrap();

        tokio::time::sleep(Duration::from_secs(1)).await;
        let local = node
            .network()
            .get_local_record(&key)
            .await
            .unwrap()
            .unwrap();
        let stored: Vec<Transaction> = try_deserialize_record(&local).unwrap();
        println!("stored {} transaction(s)", stored.len());
        assert!(
            stored.contains(&t1) && stored.contains(&t2),
            "stored set has {} transaction(s): t1 kept {}, t2 kept {}",
            stored.len(),
            stored.contains(&t1),
            stored.contains(&t2)
        );
    }
    // ---- end of C07 finding 1 ----

