
// C07 finding 2 -- appended to ant-node/src/node.rs
#[cfg(test)]
mod c07_demo_2 {
    use super::*;
    use ant_protocol::storage::{try_deserialize_record, try_serialize_record, RecordKind};
    use libp2p::kad::Record;

    /// A real `Node` on a real `Network` / `SwarmDriver` / `NodeRecordStore`, without any peer.
    fn test_node(root_dir: PathBuf) -> (Node, Receiver<NetworkEvent>) {
        let mut network_builder = NetworkBuilder::new(Keypair::generate_ed25519(), true);
        network_builder.listen_addr("127.0.0.1:0".parse().expect("addr"));
        let (network, network_event_receiver, swarm_driver) =
            network_builder.build_node(root_dir).expect("build_node");
        let node = Node {
            inner: Arc::new(NodeInner {
                network,
                events_channel: NodeEventsChannel::default(),
                initial_peers: vec![],
                reward_address: RewardsAddress::default(),
                #[cfg(feature = "open-metrics")]
                metrics_recorder: None,
                evm_network: EvmNetwork::default(),
            }),
        };
        let _handle = spawn(swarm_driver.run());
        (node, network_event_receiver)
    }

    /// Let the fire-and-forget local put, its disk write and `AddLocalRecordAsStored` complete.
    async fn settle() {
        tokio::time::sleep(Duration::from_millis(500)).await;
    }
    use ant_registers::{Permissions, Register, RegisterCrdt, RegisterOp, SignedRegister};
    use std::collections::BTreeSet;

    fn signed_register_with_op(
        register: &Register,
        owner_sk: &bls::SecretKey,
        entry: &[u8],
    ) -> SignedRegister {
        let signature = owner_sk.sign(register.bytes().expect("bytes"));
        let address = *register.address();
        let mut crdt = RegisterCrdt::new(address);
        let (_hash, _addr, crdt_op) = crdt
            .write(entry.to_vec(), &BTreeSet::new())
            .expect("crdt write");
        let op = RegisterOp::new(address, crdt_op, owner_sk);
        SignedRegister::new(register.clone(), signature, BTreeSet::from([op]))
    }

    fn register_record(reg: &SignedRegister) -> Record {
        Record {
            key: NetworkAddress::from_register_address(*reg.address()).to_record_key(),
            value: try_serialize_record(reg, RecordKind::Register)
                .expect("serialize")
                .to_vec(),
            publisher: None,
            expires: None,
        }
    }

    async fn stored_register(node: &Node, reg: &SignedRegister) -> SignedRegister {
        let key = NetworkAddress::from_register_address(*reg.address()).to_record_key();
        let record = node
            .network()
            .get_local_record(&key)
            .await
            .expect("get_local_record")
            .expect("a register is stored");
        try_deserialize_record::<SignedRegister>(&record).expect("stored register parses")
    }

    /// Two copies of one register delivered one after the other (the second delivery starts only
    /// after the first has returned Ok). The second is not merged with the first, because
    /// `validate_and_store_register` decides "present locally" from the `records` index
    /// (`is_record_key_present_locally`), which is only updated once the disk write of the first
    /// copy has been acknowledged, while the first copy already is what the store returns.
    #[tokio::test]
    async fn c07_2_register_copies_delivered_back_to_back_must_be_merged() {
        let tmp = tempfile::tempdir().expect("tempdir");
        let (node, _events) = test_node(tmp.path().to_path_buf());
        let owner_sk = bls::SecretKey::random();

        // control: the same two deliveries with a pause between them -> union, as promised
        let register = Register::new(
            owner_sk.public_key(),
            xor_name::XorName::from_content(b"control"),
            Permissions::default(),
        );
        let with_a = signed_register_with_op(&register, &owner_sk, b"entry a");
        let with_b = signed_register_with_op(&register, &owner_sk, b"entry b");
        node.store_replicated_in_record(register_record(&with_a))
            .await
            .expect("a stored");
        settle().await;
        node.store_replicated_in_record(register_record(&with_b))
            .await
            .expect("b stored");
        settle().await;
        let expected: BTreeSet<RegisterOp> = with_a.ops().union(with_b.ops()).cloned().collect();
        assert_eq!(stored_register(&node, &with_a).await.ops(), &expected);
        println!("control (pause between the deliveries): union stored");

        // the same history without the pause
        let register = Register::new(
            owner_sk.public_key(),
            xor_name::XorName::from_content(b"back to back"),
            Permissions::default(),
        );
        let with_a = signed_register_with_op(&register, &owner_sk, b"entry a");
        let with_b = signed_register_with_op(&register, &owner_sk, b"entry b");
        assert!(with_a.verify().is_ok() && with_b.verify().is_ok());
        let res_a = node
            .store_replicated_in_record(register_record(&with_a))
            .await;
        let res_b = node
            .store_replicated_in_record(register_record(&with_b))
            .await;
        settle().await;

        let stored = stored_register(&node, &with_a).await;
        let expected: BTreeSet<RegisterOp> = with_a.ops().union(with_b.ops()).cloned().collect();
        println!("delivery of copy a: {res_a:?}; delivery of copy b: {res_b:?}");
        println!(
            "stored ops: {}, contains a: {}, contains b: {}",
            stored.ops().len(),
            with_a.ops().is_subset(stored.ops()),
            with_b.ops().is_subset(stored.ops())
        );
        assert!(
            stored.ops() == &expected,
            "the stored register must be the union of all permitted operations delivered: \
             expected {} ops, stored {}",
            expected.len(),
            stored.ops().len()
        );
    }
}
