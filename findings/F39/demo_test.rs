// Appended inside `#[cfg(test)] mod tests { use super::*; ... }` at the end of ant-networking/src/lib.rs
// (after test_network_sign_verify). No production code is changed.

    /// C15 demonstration (finding 1).
    ///
    /// History: the vault owner asks for the scratchpad at the address of its key, with exactly the
    /// `GetRecordCfg` that `autonomi::Client::get_vault_from_network` uses. Three holders reply: two
    /// honest ones with the owner's authentic version (counter 3), one adversarial holder with a
    /// scratchpad that is owned and validly signed by the *attacker's* key and carries a higher
    /// counter (9). The swarm driver reports this as `GetRecordError::SplitRecord` (scripted here,
    /// everything else is the real `Network::get_record_from_network`).
    ///
    /// Promise: foreign versions are discarded, the read yields the highest-counter version signed
    /// by the requested key. So `get_record_from_network` must either hand back the authentic
    /// version, or leave the selection to the caller (`SplitRecord`), whose filter keeps only pads
    /// owned by the requested key. It must not select the foreign pad.
    #[tokio::test]
    async fn c15_split_scratchpad_read_discards_foreign_version() {
        use ant_protocol::storage::ScratchpadAddress;
        use ant_protocol::NetworkAddress;
        use bytes::Bytes;
        use libp2p::PeerId;

        let owner_sk = bls::SecretKey::random();
        let attacker_sk = bls::SecretKey::random();

        let mut authentic = Scratchpad::new(owner_sk.public_key(), 0);
        for _ in 0..3 {
            let _ = authentic.update_and_sign(Bytes::from_static(b"owner's vault"), &owner_sk);
        }
        let mut foreign = Scratchpad::new(attacker_sk.public_key(), 0);
        for _ in 0..9 {
            let _ = foreign.update_and_sign(Bytes::from_static(b"attacker's pad"), &attacker_sk);
        }
        assert!(authentic.is_valid() && foreign.is_valid());

        let requested = ScratchpadAddress::new(owner_sk.public_key());
        let key = NetworkAddress::from_scratchpad_address(requested).to_record_key();

        let to_record = |pad: &Scratchpad| Record {
            key: key.clone(),
            value: try_serialize_record(pad, RecordKind::Scratchpad)
                .expect("serialise")
                .to_vec(),
            publisher: None,
            expires: None,
        };
        let mut result_map: HashMap<XorName, (Record, HashSet<PeerId>)> = HashMap::new();
        for (pad, holders) in [(&authentic, 2), (&foreign, 1)] {
            let record = to_record(pad);
            let peers: HashSet<PeerId> = (0..holders).map(|_| PeerId::random()).collect();
            let _ = result_map.insert(XorName::from_content(&record.value), (record, peers));
        }

        // scripted swarm driver: answers every GetNetworkRecord with the split result
        let (cmd_tx, mut cmd_rx) = mpsc::channel(8);
        let (local_tx, _local_rx) = mpsc::channel(8);
        let keypair = Keypair::generate_ed25519();
        let network = Network::new(cmd_tx, local_tx, PeerId::from(keypair.public()), keypair);
        let _driver = tokio::spawn(async move {
            while let Some(cmd) = cmd_rx.recv().await {
                if let NetworkSwarmCmd::GetNetworkRecord { sender, .. } = cmd {
                    let _ = sender.send(Err(GetRecordError::SplitRecord {
                        result_map: result_map.clone(),
                    }));
                }
            }
        });

        // the configuration of autonomi/src/client/vault.rs get_vault_from_network
        let get_cfg = GetRecordCfg {
            get_quorum: Quorum::Majority,
            retry_strategy: None,
            target_record: None,
            expected_holders: HashSet::new(),
            is_register: false,
        };

        match network.get_record_from_network(key, &get_cfg).await {
            Ok(record) => {
                let pad = try_deserialize_record::<Scratchpad>(&record).expect("a scratchpad");
                assert_eq!(
                    *pad.address(),
                    requested,
                    "the read selected a scratchpad owned by another key (counter {}) although the \
                     authentic version (counter {}) was received from two holders",
                    pad.count(),
                    authentic.count()
                );
                assert_eq!(pad, authentic);
            }
            // leaving the choice to the caller is fine: its filter keeps only the requested owner's pads
            Err(NetworkError::GetRecordError(GetRecordError::SplitRecord { .. })) => {}
            Err(other) => panic!("unexpected error {other:?}"),
        }
    }
