// Appended to ant-networking/src/event/kad.rs
#[cfg(test)]
mod c05_requested_key_demo {
    use super::*;
    use crate::{cmd::NetworkSwarmCmd, driver::NetworkBuilder};
    use libp2p::{identity::Keypair, kad::Quorum, kad::RecordKey, PeerId};
    use std::num::NonZeroUsize;

    type Rx = oneshot::Receiver<std::result::Result<Record, GetRecordError>>;

    fn cfg(get_quorum: Quorum) -> GetRecordCfg {
        GetRecordCfg {
            get_quorum,
            retry_strategy: None,
            target_record: None,
            expected_holders: Default::default(),
            is_register: false,
        }
    }

    /// Registers a read of `key` with the real command handler; returns the query id and the caller's channel.
    fn start_read(driver: &mut SwarmDriver, key: &RecordKey, quorum: Quorum) -> (QueryId, Rx) {
        let (sender, receiver) = oneshot::channel();
        driver
            .handle_network_cmd(NetworkSwarmCmd::GetNetworkRecord {
                key: key.clone(),
                sender,
                cfg: cfg(quorum),
            })
            .expect("GetNetworkRecord is accepted");
        let id = *driver
            .pending_get_record
            .keys()
            .next()
            .expect("the read is pending");
        (id, receiver)
    }

    /// The kad event libp2p emits when `peer` answers query `id` with `record`
    /// (libp2p-kad 0.46.2 passes the answered record on without comparing its key with the query's key).
    fn found(id: QueryId, peer: PeerId, record: Record, count: usize) -> kad::Event {
        kad::Event::OutboundQueryProgressed {
            id,
            result: QueryResult::GetRecord(Ok(kad::GetRecordOk::FoundRecord(PeerRecord {
                peer: Some(peer),
                record,
            }))),
            stats: QueryStats::empty(),
            step: ProgressStep {
                count: NonZeroUsize::new(count).expect("non zero"),
                last: false,
            },
        }
    }

    // Quorum::One (the quorum of the node's replication fetch and of the client's chunk_get):
    // the caller asks for key K, one peer answers with a record stored under ANOTHER key.
    #[tokio::test]
    async fn c05_read_of_key_k_does_not_succeed_with_a_record_of_another_key() {
        let (_network, _events, mut driver) =
            NetworkBuilder::new(Keypair::generate_ed25519(), false)
                .build_client()
                .expect("client driver");

        let requested = RecordKey::new(b"the key the caller asked for");
        let other = RecordKey::new(b"a key nobody asked for");
        let (id, mut rx) = start_read(&mut driver, &requested, Quorum::One);

        let _ = driver.handle_kad_event(found(
            id,
            PeerId::random(),
            Record::new(other.clone(), b"content of the other key".to_vec()),
            1,
        ));

        match rx.try_recv() {
            Ok(Ok(record)) => assert_eq!(
                record.key, requested,
                "a read of key K succeeded with a record whose key is not K"
            ),
            // an error, or still waiting for a peer that answers for K: both are fine
            Ok(Err(_)) | Err(_) => {}
        }
    }

    // Quorum::Majority (3 of 5): only TWO peers return content for the requested key; the third
    // answer carries the same bytes under another key and must not be counted as a holder of K.
    #[tokio::test]
    async fn c05_answer_for_another_key_is_not_counted_towards_the_quorum() {
        let (_network, _events, mut driver) =
            NetworkBuilder::new(Keypair::generate_ed25519(), false)
                .build_client()
                .expect("client driver");

        let requested = RecordKey::new(b"the key the caller asked for");
        let other = RecordKey::new(b"a key nobody asked for");
        let value = b"same bytes".to_vec();
        let (id, mut rx) = start_read(&mut driver, &requested, Quorum::Majority);

        let _ = driver.handle_kad_event(found(
            id,
            PeerId::random(),
            Record::new(requested.clone(), value.clone()),
            1,
        ));
        let _ = driver.handle_kad_event(found(
            id,
            PeerId::random(),
            Record::new(requested.clone(), value.clone()),
            2,
        ));
        assert!(rx.try_recv().is_err(), "two holders are not a majority");

        let _ = driver.handle_kad_event(found(
            id,
            PeerId::random(),
            Record::new(other.clone(), value.clone()),
            3,
        ));

        if let Ok(Ok(record)) = rx.try_recv() {
            panic!(
                "Quorum::Majority read succeeded although only 2 peers returned content for the requested key; \
                 returned record key is the requested one: {}",
                record.key == requested
            );
        }
    }
}
