
#[cfg(test)]
mod finding_from_str_wraps {
    use super::*;

    /// floor(2^256 / 10^18) tokens is representable (units * 10^18 < 2^256), but adding
    /// 0.999999999999999999 to it exceeds 2^256 - 1, so the string does not denote an
    /// AttoTokens value and must be rejected.
    #[test]
    fn from_str_rejects_values_above_the_maximum() {
        let units = Amount::MAX / Amount::from(TOKEN_TO_RAW_CONVERSION);
        assert_eq!(
            units.to_string(),
            "115792089237316195423570985008687907853269984665640564039457"
        );
        // the integer part alone is fine
        let whole = AttoTokens::from_str(&format!("{units}")).expect("units alone fit");
        assert_eq!(whole.as_atto(), units * Amount::from(TOKEN_TO_RAW_CONVERSION));

        let input = format!("{units}.999999999999999999");
        let res = AttoTokens::from_str(&input);
        assert!(
            matches!(res, Err(EvmError::ExcessiveValue)),
            "from_str({input:?}) must be Err(ExcessiveValue) but returned {res:?}"
        );

        // the largest value is still accepted: MAX = units * 10^18 + rest
        let rest = Amount::MAX % Amount::from(TOKEN_TO_RAW_CONVERSION);
        let max_str = format!("{units}.{rest:018}");
        assert_eq!(
            AttoTokens::from_str(&max_str).map(|a| a.as_atto()).ok(),
            Some(Amount::MAX)
        );
    }
}
