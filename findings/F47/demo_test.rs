// ===== (b) added inside the existing `mod tests` of ant-cli/src/wallet/encryption.rs (before its closing brace) =====

    /// C17: decrypt_private_key must return a value or an error for every (text, password) pair.
    /// The text below is what encrypt_private_key computes (same salt/nonce/PBKDF2/CHACHA20_POLY1305
    /// layout, re-done here with ring because encrypt_private_key only takes a &str) for a plaintext
    /// that is not UTF-8; it authenticates under the password, and the decryptor then panics.
    #[test]
    fn c17_decrypt_of_authentic_non_utf8_plaintext_is_an_error_not_a_panic() {
        let password = "password123";
        let salt = [7u8; SALT_LENGTH];
        let nonce = [9u8; NONCE_LENGTH];
        let mut key = [0; 32];
        ring::pbkdf2::derive(
            ring::pbkdf2::PBKDF2_HMAC_SHA512,
            *ITERATIONS,
            &salt,
            password.as_bytes(),
            &mut key,
        );
        let unbound_key =
            ring::aead::UnboundKey::new(&ring::aead::CHACHA20_POLY1305, &key).expect("key");
        let mut sealing_key = ring::aead::SealingKey::new(unbound_key, NonceSeq(nonce));
        let mut sealed = vec![0xff, 0xfe, 0xfd];
        sealing_key
            .seal_in_place_append_tag(ring::aead::Aad::from(&[]), &mut sealed)
            .expect("seal");
        let mut data = Vec::new();
        data.extend_from_slice(&salt);
        data.extend_from_slice(&nonce);
        data.extend_from_slice(&sealed);
        let text = hex::encode(data);

        let outcome = std::panic::catch_unwind(|| decrypt_private_key(&text, password).is_ok());
        assert!(
            outcome.is_ok(),
            "decrypt_private_key panicked on {text:?} with the password {password:?}"
        );
    }
