
/// Demonstration for the fix in ant-node/src/put_validation.rs (RecordKind::Register branch of
/// `Node::validate_and_store_record`). It lives in node.rs because building a stand-alone `Node`
/// needs the private fields of `Node` / `NodeInner`; the code exercised is the real
/// `validate_and_store_record` running against a real `SwarmDriver` + `NodeRecordStore`
/// (a single node, no peers, listening on 127.0.0.1).
#[cfg(test)]
mod finding_register_update_under_foreign_key {
    use super::*;
    use ant_protocol::storage::{try_serialize_record, ChunkAddress, RecordKind};
    use ant_registers::{Permissions, Register, RegisterCrdt, RegisterOp, SignedRegister};
    use libp2p::kad::Record;
    use std::collections::BTreeSet;
    use xor_name::XorName;

    fn standalone_node(root_dir: PathBuf) -> Node {
        let keypair = Keypair::generate_ed25519();
        let mut network_builder = NetworkBuilder::new(keypair, true);
        network_builder.listen_addr("127.0.0.1:0".parse().expect("socket addr"));
        let (network, mut network_event_receiver, swarm_driver) = network_builder
            .build_node(root_dir)
            .expect("network can be built");
        let _handle = spawn(swarm_driver.run());
        // nobody processes network events in this demo, just keep the channel drained
        let _handle = spawn(async move { while network_event_receiver.recv().await.is_some() {} });
        Node {
            inner: Arc::new(NodeInner {
                events_channel: NodeEventsChannel::default(),
                initial_peers: vec![],
                network,
                #[cfg(feature = "open-metrics")]
                metrics_recorder: None,
                reward_address: RewardsAddress::default(),
                evm_network: EvmNetwork::default(),
            }),
        }
    }

    async fn wait_until_present(node: &Node, key: &libp2p::kad::RecordKey) -> bool {
        for _ in 0..100 {
            if node
                .network()
                .is_record_key_present_locally(key)
                .await
                .unwrap_or(false)
            {
                return true;
            }
            tokio::time::sleep(Duration::from_millis(50)).await;
        }
        false
    }

    #[tokio::test(flavor = "multi_thread")]
    async fn unpaid_register_update_under_a_foreign_key_is_refused() {
        let tmp = tempfile::tempdir().expect("temp dir");
        let node = standalone_node(tmp.path().to_path_buf());

        // a register this node already holds (as after a paid creation / replication)
        let owner_sk = bls::SecretKey::random();
        let meta = XorName::random(&mut thread_rng());
        let register = Register::new(owner_sk.public_key(), meta, Permissions::default());
        let reg_addr = *register.address();
        let signature = owner_sk.sign(register.bytes().expect("register bytes"));
        let signed = SignedRegister::new(register, signature, BTreeSet::new());
        let reg_key = NetworkAddress::from_register_address(reg_addr).to_record_key();
        node.validate_and_store_register(signed.clone(), false)
            .await
            .expect("register is stored");
        assert!(wait_until_present(&node, &reg_key).await, "register held locally");

        // an owner-signed update of that register ...
        let mut crdt = RegisterCrdt::new(reg_addr);
        let (_hash, addr, crdt_op) = crdt
            .write(b"new entry".to_vec(), &BTreeSet::new())
            .expect("crdt write");
        let mut updated = signed.clone();
        updated
            .add_op(RegisterOp::new(addr, crdt_op, &owner_sk))
            .expect("op accepted");
        let value = try_serialize_record(&updated, RecordKind::Register)
            .expect("serialise")
            .to_vec();

        // ... delivered, without payment, under a record key that is NOT the register's key
        let foreign_key = NetworkAddress::from_chunk_address(ChunkAddress::new(XorName::random(
            &mut thread_rng(),
        )))
        .to_record_key();
        assert_ne!(foreign_key, reg_key);
        let record = Record {
            key: foreign_key.clone(),
            value: value.clone(),
            publisher: None,
            expires: None,
        };
        let res = node.validate_and_store_record(record).await;
        assert!(
            matches!(res, Err(crate::Error::RecordKeyMismatch)),
            "a Register record whose key is not the register's key must be refused with RecordKeyMismatch, but validate_and_store_record returned {res:?}"
        );

        // the same update under the register's own key is fine
        let record = Record {
            key: reg_key,
            value,
            publisher: None,
            expires: None,
        };
        let res = node.validate_and_store_record(record).await;
        assert!(res.is_ok(), "update under the right key: {res:?}");
    }
}
