    // C17 demonstration 1 (appended to the `tests` module of node-launchpad/src/config.rs).
    // A style entry of the user's configuration file
    // (<data dir>/autonomi/launchpad/config/config.json5, read by `Config::new`) is parsed by
    // `Styles::deserialize` -> `parse_style` -> `parse_color`. Whatever text the entry holds, parsing
    // the file has to give a value or an error, never a panic or an arithmetic overflow.
    #[test]
    fn c17_user_config_style_text_never_panics() {
        let mut panicking = vec![];
        for style_text in [
            "rgb", "rgb12", "on rgb", "rgb666", "gray24", "gray255", "İİİİon ",
        ] {
            let user_config =
                format!(r#"{{ "styles": {{ "Status": {{ "title": "{style_text}" }} }} }}"#);
            let outcome =
                std::panic::catch_unwind(|| json5::from_str::<Config>(&user_config).map(|_| ()));
            if outcome.is_err() {
                panicking.push(style_text);
            }
        }
        assert!(
            panicking.is_empty(),
            "parsing a configuration file panicked for the style texts {panicking:?}"
        );
    }
