
// ---------------------------------------------------------------------------
// C01 hunt, demo 1: a completion notification that is still in flight when its
// key is removed puts the removed key back into the store's listing.
//
// Install: append this file to ant-networking/src/record_store.rs, then run
//   cargo test -p ant-networking --offline --lib c01_hunt_demo_1
// ---------------------------------------------------------------------------
#[cfg(test)]
mod c01_hunt_demo_1 {
    use super::*;
    use ant_protocol::storage::try_serialize_record;
    use bytes::Bytes;
    use tokio::time::{timeout, Duration};

    fn new_store(
        max_records: usize,
    ) -> (NodeRecordStore, mpsc::Receiver<LocalSwarmCmd>, PeerId) {
        let storage_dir = std::env::temp_dir().join(format!("c01hunt_{}", uuid::Uuid::new_v4()));
        fs::create_dir_all(&storage_dir).expect("create storage dir");
        let config = NodeRecordStoreConfig {
            storage_dir: storage_dir.clone(),
            historic_quote_dir: storage_dir,
            max_records,
            ..Default::default()
        };
        let self_id = PeerId::random();
        let (network_event_sender, _network_event_receiver) = mpsc::channel(10);
        let (swarm_cmd_sender, swarm_cmd_receiver) = mpsc::channel(100);
        let store =
            NodeRecordStore::with_config(self_id, config, network_event_sender, swarm_cmd_sender);
        (store, swarm_cmd_receiver, self_id)
    }

    fn chunk_record(key: Key, fill: u8) -> Record {
        let value = try_serialize_record(&Bytes::from(vec![fill; 64]), RecordKind::Chunk)
            .expect("serialise")
            .to_vec();
        Record {
            key,
            value,
            publisher: None,
            expires: None,
        }
    }

    /// What `SwarmDriver::handle_local_cmd` (cmd.rs) does with the two
    /// notifications the store's write task sends.
    fn apply(store: &mut NodeRecordStore, cmd: LocalSwarmCmd) {
        match cmd {
            LocalSwarmCmd::AddLocalRecordAsStored { key, record_type } => {
                store.mark_as_stored(key, record_type)
            }
            LocalSwarmCmd::RemoveFailedLocalRecord { key } => store.remove(&key),
            other => panic!("unexpected cmd from the record store: {other:?}"),
        }
    }

    async fn next_cmd(rx: &mut mpsc::Receiver<LocalSwarmCmd>) -> Option<LocalSwarmCmd> {
        match timeout(Duration::from_millis(500), rx.recv()).await {
            Ok(cmd) => cmd,
            Err(_elapsed) => None,
        }
    }

    /// Let every spawned disk-write / file-delete / notification task finish and
    /// deliver every notification, i.e. "background disk work has settled".
    async fn settle(store: &mut NodeRecordStore, rx: &mut mpsc::Receiver<LocalSwarmCmd>) {
        while let Some(cmd) = next_cmd(rx).await {
            apply(store, cmd);
        }
    }

    /// put_verified(k) ; remove(k) ; settle  ==>  k must be neither readable nor listed.
    #[tokio::test]
    async fn c01_hunt_demo_1_removed_key_is_not_listed_after_settling() {
        let (mut store, mut rx, _self_id) = new_store(16);
        let key = NetworkAddress::from_peer(PeerId::random()).to_record_key();
        let record = chunk_record(key.clone(), 7);

        assert!(store.put_verified(record, RecordType::Chunk).is_ok());
        store.remove(&key);
        settle(&mut store, &mut rx).await;

        let listed = store.contains(&key);
        let in_addresses = store
            .record_addresses()
            .contains_key(&NetworkAddress::from_record_key(&key));
        let readable = store.get(&key).is_some();
        let file_exists = store
            .config
            .storage_dir
            .join(NodeRecordStore::generate_filename(&key))
            .exists();
        println!(
            "after put_verified; remove; settle: contains={listed} record_addresses={in_addresses} \
             get.is_some={readable} file_exists={file_exists}"
        );
        assert!(!readable, "a removed key is still readable");
        assert!(
            !listed && !in_addresses,
            "a removed key is listed again (contains={listed}, record_addresses={in_addresses}) \
             although get() returns nothing and its file exists={file_exists}"
        );
    }

    /// Same defect reached through the store's own pruning, with the completion
    /// notifications of two *different* keys delivered in the other order:
    ///   A stored; overwrite A (write in flight); put B (write in flight);
    ///   B's completion is delivered; put C (store full -> prunes A, the farthest);
    ///   A's completion is delivered; settle.
    #[tokio::test]
    async fn c01_hunt_demo_1_pruned_key_is_not_listed_after_settling() {
        let max_records = 2;
        let (mut store, mut rx, self_id) = new_store(max_records);
        let self_addr = NetworkAddress::from_peer(self_id);

        // three keys, `a` farthest from us, `c` closest
        let mut keys: Vec<Key> = (0..3)
            .map(|_| NetworkAddress::from_peer(PeerId::random()).to_record_key())
            .collect();
        keys.sort_by_key(|k| self_addr.distance(&NetworkAddress::from_record_key(k)));
        let (c, b, a) = (keys[0].clone(), keys[1].clone(), keys[2].clone());

        // A is stored and settled.
        assert!(store
            .put_verified(chunk_record(a.clone(), 1), RecordType::Chunk)
            .is_ok());
        settle(&mut store, &mut rx).await;
        assert!(store.contains(&a));

        // Overwrite A and put B; both writes are accepted, completions not yet delivered.
        let a2 = chunk_record(a.clone(), 2);
        assert!(store.put_verified(a2.clone(), RecordType::Chunk).is_ok());
        let b1 = chunk_record(b.clone(), 3);
        assert!(store.put_verified(b1.clone(), RecordType::Chunk).is_ok());
        let completion_a = next_cmd(&mut rx).await.expect("completion for A");
        let completion_b = next_cmd(&mut rx).await.expect("completion for B");
        assert!(
            matches!(&completion_a, LocalSwarmCmd::AddLocalRecordAsStored { key, .. } if *key == a)
        );
        assert!(
            matches!(&completion_b, LocalSwarmCmd::AddLocalRecordAsStored { key, .. } if *key == b)
        );

        // B's completion first: the store is now full (A, B).
        apply(&mut store, completion_b);
        // C is closer than A, so A (the farthest) is pruned to make room.
        let c1 = chunk_record(c.clone(), 4);
        assert!(store.put_verified(c1.clone(), RecordType::Chunk).is_ok());
        assert!(!store.contains(&a), "A was pruned");
        // Now the completion of A's earlier overwrite is delivered.
        apply(&mut store, completion_a);
        settle(&mut store, &mut rx).await;

        let listed: Vec<&str> = [(&a, "A"), (&b, "B"), (&c, "C")]
            .iter()
            .filter(|(k, _)| store.contains(k))
            .map(|(_, n)| *n)
            .collect();
        println!(
            "listed={listed:?} (max_records={max_records}) get(A).is_some={} get(B)==b1:{} get(C)==c1:{}",
            store.get(&a).is_some(),
            store.get(&b).map(|r| r.value.clone()) == Some(b1.value.clone()),
            store.get(&c).map(|r| r.value.clone()) == Some(c1.value.clone()),
        );

        // Every listed key must be readable with the latest accepted bytes ...
        for (k, name, latest) in [(&a, "A", &a2), (&b, "B", &b1), (&c, "C", &c1)] {
            if store.contains(k) {
                assert_eq!(
                    store.get(k).map(|r| r.value.clone()),
                    Some(latest.value.clone()),
                    "{name} is listed but does not read back as written"
                );
            }
        }
        // ... and the pruned (removed) key must not be listed.
        assert!(!store.contains(&a), "pruned key A is listed again");
    }
}
