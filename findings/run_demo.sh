#!/bin/bash
# usage: run_demo.sh <full-sha> <mode: append:<path> | file:<path>> <demo_test.rs> -- <cargo args...>
set -u
sha=$1; mode=$2; demo=$3; shift 4
short=${sha:0:7}
out=/tmp/findings/$short
mkdir -p $out
cd /tmp/wt/findings || exit 1
export CARGO_TARGET_DIR=/tmp/wt/findings/target
place() {
  case $mode in
    append:*) cat "$demo" >> "${mode#append:}";;
    file:*) mkdir -p "$(dirname "${mode#file:}")"; cp "$demo" "${mode#file:}";;
  esac
}
for phase in before after; do
  git checkout -q -- . && git clean -fdq -e target
  if [ $phase = before ]; then git checkout -q --detach ${sha}^; else git checkout -q --detach ${sha}; fi
  place
  { echo "# HEAD: $(git rev-parse HEAD) ($phase fix $short)"; echo "# cmd: cargo $*"; cargo "$@" 2>&1 | grep -v -E '^\s*(Compiling|Downloaded|Fresh|Blocking)' ; echo "# exit status: ${PIPESTATUS[0]}"; } > $out/out_${phase}_fix.txt
  tail -40 $out/out_${phase}_fix.txt | sed "s/^/[$phase] /"
done
git checkout -q -- . && git clean -fdq -e target
cp "$demo" $out/demo_test.rs 2>/dev/null
