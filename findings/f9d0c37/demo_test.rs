
/// Demonstration for `Client::chunk_get`. No live Autonomi network is needed: the "network" is one
/// real ant-networking node (SwarmDriver + NodeRecordStore, listening on 127.0.0.1) that plays the
/// adversarial holder, and a real client-mode `Network` that dials it. The holder's store is given
/// (through `put_local_record`, which does not validate) a record stored under the key of chunk A
/// whose value is another well-formed chunk B. The code under test, `Client::chunk_get`, and the
/// kad GET it performs are the real ones.
#[cfg(test)]
mod finding_chunk_get_unverified_content {
    use super::*;
    use ant_networking::{NetworkBuilder, NetworkEvent};
    use ant_protocol::storage::try_serialize_record;
    use libp2p::{identity::Keypair, kad::Record, Multiaddr};
    use std::{sync::Arc, time::Duration};

    /// Start a real node holding `records` (unvalidated) and return an address to dial it at.
    async fn adversarial_holder(records: Vec<Record>) -> Multiaddr {
        let root_dir = std::env::temp_dir().join(format!("finding_holder_{}", rand::random::<u64>()));
        std::fs::create_dir_all(&root_dir).expect("create dir");
        let keypair = Keypair::generate_ed25519();
        let peer_id = keypair.public().to_peer_id();
        let mut builder = NetworkBuilder::new(keypair, true);
        builder.listen_addr("127.0.0.1:0".parse().expect("socket addr"));
        let (network, mut events, driver) = builder.build_node(root_dir).expect("build node");
        let _handle = tokio::spawn(driver.run());

        let listen_addr = loop {
            match tokio::time::timeout(Duration::from_secs(10), events.recv()).await {
                Ok(Some(NetworkEvent::NewListenAddr(addr))) => break addr,
                Ok(Some(_)) => continue,
                other => panic!("holder did not start listening: {other:?}"),
            }
        };
        let _handle = tokio::spawn(async move { while events.recv().await.is_some() {} });

        for record in records {
            let key = record.key.clone();
            network.put_local_record(record);
            let mut stored = false;
            for _ in 0..100 {
                if network.is_record_key_present_locally(&key).await.unwrap_or(false) {
                    stored = true;
                    break;
                }
                tokio::time::sleep(Duration::from_millis(50)).await;
            }
            assert!(stored, "holder stored the record");
        }
        // the holder has to outlive this function
        std::mem::forget(network);

        let has_p2p = listen_addr
            .iter()
            .any(|p| matches!(p, libp2p::multiaddr::Protocol::P2p(_)));
        if has_p2p {
            listen_addr
        } else {
            listen_addr.with(libp2p::multiaddr::Protocol::P2p(peer_id))
        }
    }

    /// A real client whose routing table holds exactly the given peer.
    async fn client_connected_to(addr: Multiaddr) -> Client {
        let (network, mut events, driver) = NetworkBuilder::new(Keypair::generate_ed25519(), true)
            .build_client()
            .expect("build client");
        let _handle = tokio::spawn(driver.run());
        network.dial(addr).await.expect("dial holder");
        loop {
            match tokio::time::timeout(Duration::from_secs(20), events.recv()).await {
                Ok(Some(NetworkEvent::PeerAdded(..))) => break,
                Ok(Some(_)) => continue,
                other => panic!("holder was not added to the client's routing table: {other:?}"),
            }
        }
        let _handle = tokio::spawn(async move { while events.recv().await.is_some() {} });
        Client {
            network,
            client_event_sender: Arc::new(None),
            evm_network: Default::default(),
        }
    }

    #[tokio::test(flavor = "multi_thread")]
    async fn chunk_get_checks_content_against_requested_address() {
        let chunk_a = Chunk::new(Bytes::from_static(b"chunk A: what the caller asks for"));
        let chunk_b = Chunk::new(Bytes::from_static(b"chunk B: what the holder answers with"));
        let addr_a = *chunk_a.address().xorname();
        assert_ne!(chunk_a.address(), chunk_b.address());

        // under A's key the holder keeps (and serves) a record whose content is chunk B
        let forged = Record {
            key: NetworkAddress::from_chunk_address(*chunk_a.address()).to_record_key(),
            value: try_serialize_record(&chunk_b, RecordKind::Chunk)
                .expect("serialise")
                .to_vec(),
            publisher: None,
            expires: None,
        };
        // control: an honest record for chunk B under B's own key
        let honest = Record {
            key: NetworkAddress::from_chunk_address(*chunk_b.address()).to_record_key(),
            value: try_serialize_record(&chunk_b, RecordKind::Chunk)
                .expect("serialise")
                .to_vec(),
            publisher: None,
            expires: None,
        };
        let holder_addr = adversarial_holder(vec![forged, honest]).await;
        let client = client_connected_to(holder_addr).await;

        // control: the set-up works, a chunk stored under its own address is fetched
        let got_b = client
            .chunk_get(*chunk_b.address().xorname())
            .await
            .expect("honest chunk is fetched");
        assert_eq!(got_b, chunk_b);

        // the defect: asking for A must never yield content that does not hash to A
        let res = client.chunk_get(addr_a).await;
        match res {
            Ok(chunk) => {
                assert_eq!(
                    *chunk.address().xorname(),
                    addr_a,
                    "chunk_get({addr_a:?}) returned Ok with a chunk whose content hashes to {:?} (value: {:?})",
                    chunk.address().xorname(),
                    String::from_utf8_lossy(chunk.value())
                );
            }
            Err(err) => {
                assert!(
                    matches!(
                        err,
                        GetError::Network(NetworkError::GetRecordError(
                            ant_networking::GetRecordError::RecordDoesNotMatch(_)
                        ))
                    ),
                    "expected RecordDoesNotMatch, got {err:?}"
                );
            }
        }
    }
}
