// C19 demonstration: the PID that `start` and `refresh_node_registry` record is whatever
// `ServiceController::get_process_pid` returns, and on Linux that lookup walks
// `sysinfo::System::processes()`, which lists every thread (task) of a process as an entry of its
// own, with the same `exe()`. The first entry of a randomly ordered map whose `exe()` matches is
// returned, so for a multi-threaded service process (antnode is one) the recorded "PID" is almost
// always the id of one of its threads, and it changes from one refresh to the next.
//
// Everything that decides the outcome is production code: `add_node`, `ServiceManager::start`,
// `refresh_node_registry`, `NodeService::on_start` and the real
// `ServiceController::get_process_pid`. Only the init system is simulated (`SimOs`): `install`
// remembers program and arguments of the service definition, `start` executes them, `stop` kills
// the process. The stand-in node binary is a small multi-threaded program compiled with `rustc`
// at the start of the test (17 threads that sleep; it ignores its arguments).

use ant_bootstrap::PeersArgs;
use ant_evm::{EvmNetwork, RewardsAddress};
use ant_node_manager::{
    add_services::{add_node, config::AddNodeServiceOptions},
    refresh_node_registry, ServiceManager, VerbosityLevel,
};
use ant_service_management::{
    control::{ServiceControl, ServiceController},
    error::{Error as ServiceError, Result as ServiceResult},
    rpc::{NetworkInfo, NodeInfo, RecordAddress, RpcActions},
    NodeRegistry, NodeService, ServiceStatus,
};
use async_trait::async_trait;
use libp2p_identity::PeerId;
use service_manager::ServiceInstallCtx;
use std::{
    collections::HashMap,
    ffi::OsString,
    path::{Path, PathBuf},
    process::{Child, Command, Stdio},
    str::FromStr,
    sync::{Arc, Mutex},
    time::Duration,
};

const STAND_IN_NODE: &str = r#"
fn main() {
    // like antnode: a runtime with a number of worker threads; the arguments are ignored
    for _ in 0..16 {
        std::thread::spawn(|| std::thread::sleep(std::time::Duration::from_secs(600)));
    }
    std::thread::sleep(std::time::Duration::from_secs(600));
}
"#;

#[derive(Default)]
struct OsState {
    installed: Mutex<HashMap<String, (PathBuf, Vec<OsString>)>>,
    children: Mutex<HashMap<String, Child>>,
}

impl OsState {
    fn live_pid(&self, name: &str) -> Option<u32> {
        let mut children = self.children.lock().unwrap();
        let child = children.get_mut(name)?;
        match child.try_wait() {
            Ok(None) => Some(child.id()),
            _ => None,
        }
    }
}

impl Drop for OsState {
    fn drop(&mut self) {
        for (_, child) in self.children.lock().unwrap().iter_mut() {
            let _ = child.kill();
            let _ = child.wait();
        }
    }
}

/// The simulated init system. The process lookup is NOT simulated: it is the production one.
struct SimOs(Arc<OsState>);

impl ServiceControl for SimOs {
    fn create_service_user(&self, _username: &str) -> ServiceResult<()> {
        Ok(())
    }
    fn get_available_port(&self) -> ServiceResult<u16> {
        ServiceController {}.get_available_port()
    }
    fn install(&self, install_ctx: ServiceInstallCtx, _user_mode: bool) -> ServiceResult<()> {
        self.0.installed.lock().unwrap().insert(
            install_ctx.label.to_script_name(),
            (install_ctx.program, install_ctx.args),
        );
        Ok(())
    }
    fn get_process_pid(&self, bin_path: &Path) -> ServiceResult<u32> {
        // the real probe of ant-service-management/src/control.rs
        ServiceController {}.get_process_pid(bin_path)
    }
    fn start(&self, service_name: &str, _user_mode: bool) -> ServiceResult<()> {
        let (program, args) = self
            .0
            .installed
            .lock()
            .unwrap()
            .get(service_name)
            .cloned()
            .ok_or_else(|| ServiceError::ServiceDoesNotExists(service_name.to_string()))?;
        let child = Command::new(program)
            .args(args)
            .stdin(Stdio::null())
            .stdout(Stdio::null())
            .stderr(Stdio::null())
            .spawn()?;
        self.0
            .children
            .lock()
            .unwrap()
            .insert(service_name.to_string(), child);
        Ok(())
    }
    fn stop(&self, service_name: &str, _user_mode: bool) -> ServiceResult<()> {
        if let Some(child) = self.0.children.lock().unwrap().get_mut(service_name) {
            let _ = child.kill();
            let _ = child.wait();
        }
        Ok(())
    }
    fn uninstall(&self, service_name: &str, _user_mode: bool) -> ServiceResult<()> {
        self.0.installed.lock().unwrap().remove(service_name);
        Ok(())
    }
    fn wait(&self, _delay: u64) {
        // give the stand-in the time to spawn its threads
        std::thread::sleep(Duration::from_millis(500));
    }
}

/// A node RPC service that always answers: no fault is injected anywhere in this test.
struct HealthyRpc;

#[async_trait]
impl RpcActions for HealthyRpc {
    async fn node_info(&self) -> ServiceResult<NodeInfo> {
        Ok(NodeInfo {
            pid: 0,
            peer_id: PeerId::random(),
            log_path: PathBuf::new(),
            data_path: PathBuf::new(),
            version: "0.1.0".to_string(),
            uptime: Duration::from_secs(1),
            wallet_balance: 0,
        })
    }
    async fn network_info(&self) -> ServiceResult<NetworkInfo> {
        Ok(NetworkInfo {
            connected_peers: vec![],
            listeners: vec![],
        })
    }
    async fn record_addresses(&self) -> ServiceResult<Vec<RecordAddress>> {
        Ok(vec![])
    }
    async fn node_restart(&self, _delay_millis: u64, _retain_peer_id: bool) -> ServiceResult<()> {
        Ok(())
    }
    async fn node_stop(&self, _delay_millis: u64) -> ServiceResult<()> {
        Ok(())
    }
    async fn node_update(&self, _delay_millis: u64) -> ServiceResult<()> {
        Ok(())
    }
    async fn is_node_connected_to_network(&self, _timeout: Duration) -> ServiceResult<()> {
        Ok(())
    }
    async fn update_log_level(&self, _log_levels: String) -> ServiceResult<()> {
        Ok(())
    }
}

/// What the kernel says about an id: (thread group id = the PID of the process, thread id).
fn tgid_and_tid(id: u32) -> Option<(u32, u32)> {
    let status = std::fs::read_to_string(format!("/proc/{id}/status")).ok()?;
    let field = |name: &str| {
        status
            .lines()
            .find_map(|l| l.strip_prefix(name))
            .and_then(|v| v.trim().parse::<u32>().ok())
    };
    Some((field("Tgid:")?, field("Pid:")?))
}

fn check(when: &str, status: &ServiceStatus, recorded: Option<u32>, live: Option<u32>) -> Option<String> {
    println!("{when}: recorded {status:?} / pid {recorded:?}; live process {live:?}");
    if *status == ServiceStatus::Running && recorded != live {
        let what = recorded
            .and_then(tgid_and_tid)
            .map(|(tgid, tid)| format!("the kernel knows {tid} as a thread of process {tgid}"))
            .unwrap_or_else(|| "the kernel knows nothing with that id".to_string());
        return Some(format!(
            "{when}: recorded Running with pid {recorded:?}, but the PID of the live process is {live:?} ({what})"
        ));
    }
    None
}

#[tokio::test]
async fn a_running_service_records_the_pid_of_its_process() {
    let tmp = assert_fs::TempDir::new().unwrap();
    let root = tmp.path().canonicalize().unwrap();

    // the stand-in node binary
    let src_dir = root.join("src");
    std::fs::create_dir_all(&src_dir).unwrap();
    std::fs::write(src_dir.join("main.rs"), STAND_IN_NODE).unwrap();
    let antnode_src = src_dir.join("antnode");
    let rustc = std::env::var("RUSTC").unwrap_or_else(|_| "rustc".to_string());
    let compiled = Command::new(rustc)
        .arg("-o")
        .arg(&antnode_src)
        .arg(src_dir.join("main.rs"))
        .status()
        .expect("rustc runs");
    assert!(compiled.success(), "the stand-in node binary compiles");

    let os = Arc::new(OsState::default());
    let mut registry = NodeRegistry {
        auditor: None,
        daemon: None,
        environment_variables: None,
        faucet: None,
        nat_status: None,
        nodes: vec![],
        save_path: root.join("node_registry.json"),
    };
    let data_dir_prefix = root.join("services");
    add_node(
        AddNodeServiceOptions {
            antnode_dir_path: data_dir_prefix.clone(),
            antnode_src_path: antnode_src,
            auto_restart: false,
            auto_set_nat_flags: false,
            count: None,
            delete_antnode_src: false,
            enable_metrics_server: false,
            env_variables: None,
            evm_network: EvmNetwork::ArbitrumOne,
            home_network: false,
            log_format: None,
            max_archived_log_files: None,
            max_log_files: None,
            metrics_port: None,
            network_id: None,
            node_ip: None,
            node_port: None,
            owner: None,
            peers_args: PeersArgs::default(),
            rewards_address: RewardsAddress::from_str(
                "0x03B770D9cD32077cC0bF330c13C114a87643B124",
            )
            .unwrap(),
            rpc_address: None,
            rpc_port: None,
            service_data_dir_path: data_dir_prefix,
            service_log_dir_path: root.join("logs"),
            upnp: false,
            user: None,
            user_mode: true,
            version: "0.1.0".to_string(),
        },
        &mut registry,
        &SimOs(os.clone()),
        VerbosityLevel::Minimal,
    )
    .await
    .expect("add_node succeeds");

    let mut violations = Vec::new();

    // --- start -------------------------------------------------------------------------------
    {
        let service = NodeService::new(&mut registry.nodes[0], Box::new(HealthyRpc));
        let mut manager = ServiceManager::new(
            service,
            Box::new(SimOs(os.clone())),
            VerbosityLevel::Minimal,
        );
        manager.start().await.expect("start succeeds");
    }
    violations.extend(check(
        "after start",
        &registry.nodes[0].status,
        registry.nodes[0].pid,
        os.live_pid("antnode1"),
    ));

    // --- the refresh every antctl command begins with ------------------------------------------
    for round in 1..=10 {
        refresh_node_registry(&mut registry, &SimOs(os.clone()), false, false, false)
            .await
            .expect("refresh succeeds");
        violations.extend(check(
            &format!("after refresh {round}"),
            &registry.nodes[0].status,
            registry.nodes[0].pid,
            os.live_pid("antnode1"),
        ));
    }

    assert_eq!(
        violations,
        Vec::<String>::new(),
        "a service recorded as running has a live process with the recorded PID"
    );
}
