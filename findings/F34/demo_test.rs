
// C07 finding 1 -- appended to ant-node/src/node.rs
#[cfg(test)]
mod c07_demo_1 {
    use super::*;
    use ant_protocol::storage::{try_deserialize_record, try_serialize_record, RecordKind};
    use libp2p::kad::Record;

    /// A real `Node` on a real `Network` / `SwarmDriver` / `NodeRecordStore`, without any peer.
    fn test_node(root_dir: PathBuf) -> (Node, Receiver<NetworkEvent>) {
        let mut network_builder = NetworkBuilder::new(Keypair::generate_ed25519(), true);
        network_builder.listen_addr("127.0.0.1:0".parse().expect("addr"));
        let (network, network_event_receiver, swarm_driver) =
            network_builder.build_node(root_dir).expect("build_node");
        let node = Node {
            inner: Arc::new(NodeInner {
                network,
                events_channel: NodeEventsChannel::default(),
                initial_peers: vec![],
                reward_address: RewardsAddress::default(),
                #[cfg(feature = "open-metrics")]
                metrics_recorder: None,
                evm_network: EvmNetwork::default(),
            }),
        };
        let _handle = spawn(swarm_driver.run());
        (node, network_event_receiver)
    }

    /// Let the fire-and-forget local put, its disk write and `AddLocalRecordAsStored` complete.
    async fn settle() {
        tokio::time::sleep(Duration::from_millis(500)).await;
    }
    use ant_protocol::storage::Scratchpad;

    fn scratchpad_record(pad: &Scratchpad) -> Record {
        Record {
            key: NetworkAddress::ScratchpadAddress(*pad.address()).to_record_key(),
            value: try_serialize_record(pad, RecordKind::Scratchpad)
                .expect("serialize")
                .to_vec(),
            publisher: None,
            expires: None,
        }
    }

    async fn stored_scratchpad(node: &Node, pad: &Scratchpad) -> Scratchpad {
        let key = NetworkAddress::ScratchpadAddress(*pad.address()).to_record_key();
        let record = node
            .network()
            .get_local_record(&key)
            .await
            .expect("get_local_record")
            .expect("a scratchpad is stored");
        try_deserialize_record::<Scratchpad>(&record).expect("stored scratchpad parses")
    }

    /// Two updates of one scratchpad processed concurrently (each delivery runs in its own
    /// spawned task, exactly as node.rs:503 and replication.rs:41 do) both pass the counter check
    /// against the same old local copy; the lower counter is written last: the record regresses.
    #[tokio::test]
    async fn c07_1_concurrent_scratchpad_updates_must_not_regress() {
        let tmp = tempfile::tempdir().expect("tempdir");
        let (node, _events) = test_node(tmp.path().to_path_buf());

        let sk = bls::SecretKey::random();
        let mut pad = Scratchpad::new(sk.public_key(), 0);
        let _ = pad.update_and_sign(Bytes::from_static(b"version 1"), &sk);
        let v1 = pad.clone();
        let _ = pad.update_and_sign(Bytes::from_static(b"version 2"), &sk);
        let v2 = pad.clone();
        let _ = pad.update_and_sign(Bytes::from_static(b"version 3"), &sk);
        let v3 = pad.clone();
        assert!(v1.is_valid() && v2.is_valid() && v3.is_valid());
        assert_eq!((v1.count(), v2.count(), v3.count()), (1, 2, 3));

        // the node holds version 1
        node.store_replicated_in_record(scratchpad_record(&v1))
            .await
            .expect("v1 stored");
        settle().await;
        assert_eq!(stored_scratchpad(&node, &v1).await.count(), 1);

        // version 3 and version 2 are delivered (replicated copies fetched from two holders);
        // each delivery is handled in its own task, as in `fetch_replication_keys_without_wait`
        let (n3, n2) = (node.clone(), node.clone());
        let (r3, r2) = (scratchpad_record(&v3), scratchpad_record(&v2));
        let t3 = spawn(async move { n3.store_replicated_in_record(r3).await });
        let t2 = spawn(async move { n2.store_replicated_in_record(r2).await });
        let res3 = t3.await.expect("join");
        let res2 = t2.await.expect("join");
        settle().await;

        let stored = stored_scratchpad(&node, &v1).await;
        println!("delivery of v3: {res3:?}; delivery of v2: {res2:?}");
        println!("stored counter after both deliveries: {}", stored.count());
        assert!(stored.is_valid());
        assert_eq!(
            stored.count(),
            3,
            "the stored scratchpad must be the highest validly signed version delivered (3), \
             the counter must never decrease"
        );
    }
}
