    // C08 hunt3, finding 1: a fetch whose deadline has passed must have left the in-flight set;
    // a fresh single-record advertisement of the same record by another (responsive) holder
    // must therefore be scheduled. Appended to `mod tests` of ant-networking/src/replication_fetcher.rs.
    #[tokio::test]
    async fn hunt3_timed_out_fetch_does_not_block_a_fresh_single_key_advert() {
        let held = HashMap::new();
        let addr = NetworkAddress::from_record_key(&RecordKey::from(vec![7u8; 32]));
        let key = addr.to_record_key();
        let slow = PeerId::random();
        let responsive = PeerId::random();

        // the fetch deadline of everything in flight passed one second ago
        fn expire_in_flight(f: &mut ReplicationFetcher) {
            for (_holder, deadline) in f.on_going_fetches.values_mut() {
                *deadline = std::time::Instant::now() - Duration::from_secs(1);
            }
        }

        // Control: same history, but some other fetcher activity happens after the expiry.
        let (event_sender, _event_receiver) = mpsc::channel(4);
        let mut control = ReplicationFetcher::new(PeerId::random(), event_sender);
        let first = control.add_keys(slow, vec![(addr.clone(), RecordType::Chunk)], &held);
        assert_eq!(first, vec![(slow, key.clone())]);
        expire_in_flight(&mut control);
        assert!(control.next_keys_to_fetch().is_empty());
        let second = control.add_keys(responsive, vec![(addr.clone(), RecordType::Chunk)], &held);
        assert_eq!(second, vec![(responsive, key.clone())], "control history");

        // History under test: the slow holder's fetch times out, nothing else happens, then the
        // responsive holder sends its fresh (single-record) replicate of the same record.
        let (event_sender, _event_receiver) = mpsc::channel(4);
        let mut fetcher = ReplicationFetcher::new(PeerId::random(), event_sender);
        let first = fetcher.add_keys(slow, vec![(addr.clone(), RecordType::Chunk)], &held);
        assert_eq!(first, vec![(slow, key.clone())]);
        expire_in_flight(&mut fetcher);
        let second = fetcher.add_keys(responsive, vec![(addr.clone(), RecordType::Chunk)], &held);

        // the timed-out fetch is gone from the in-flight set after the call ...
        assert!(!fetcher
            .on_going_fetches
            .values()
            .any(|(holder, _)| *holder == slow));
        // ... the record is not held and no fetch for it is in flight, so the advert has to be honoured
        assert_eq!(
            second,
            vec![(responsive, key.clone())],
            "the timed-out fetch still counted as in flight: the fresh advert was dropped \
             (in flight now: {}, queued now: {})",
            fetcher.on_going_fetches.len(),
            fetcher.to_be_fetched.len()
        );
    }
