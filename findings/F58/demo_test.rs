
    // C06 demonstration: a register that does not belong under the requested key is merged/returned
    fn c06_signed_reg(
        sk: &bls::SecretKey,
        meta: XorName,
        values: &[&[u8]],
    ) -> SignedRegister {
        use ant_registers::{Permissions, Register, RegisterCrdt, RegisterOp};
        use std::collections::BTreeSet;
        let base = Register::new(sk.public_key(), meta, Permissions::default());
        let sig = sk.sign(base.bytes().expect("register bytes"));
        let mut reg = SignedRegister::new(base, sig, BTreeSet::new());
        for v in values {
            let mut crdt = RegisterCrdt::new(*reg.address());
            let (_hash, addr, crdt_op) = crdt
                .write(v.to_vec(), &BTreeSet::new())
                .expect("crdt write");
            reg.add_op(RegisterOp::new(addr, crdt_op, sk))
                .expect("the owner may write");
        }
        reg
    }

    fn c06_answers(
        key: &RecordKey,
        regs: &[&SignedRegister],
    ) -> HashMap<XorName, (Record, HashSet<PeerId>)> {
        let mut result_map = HashMap::new();
        for reg in regs {
            let value = try_serialize_record(reg, RecordKind::Register)
                .expect("serialise")
                .to_vec();
            let record = Record {
                key: key.clone(),
                value,
                publisher: None,
                expires: None,
            };
            let _ = result_map.insert(
                XorName::from_content(&record.value),
                (record, HashSet::from([PeerId::random()])),
            );
        }
        result_map
    }

    /// Two holders answer the GET of the owner's register with two (validly self-signed) versions
    /// of Mallory's register: what comes back for the owner's key must not be Mallory's register.
    #[test]
    fn c06_split_record_returns_register_of_another_address() -> eyre::Result<()> {
        let owner_sk = bls::SecretKey::random();
        let mallory_sk = bls::SecretKey::random();
        let meta = XorName([1; 32]);

        let requested = ant_registers::RegisterAddress::new(meta, owner_sk.public_key());
        let key = NetworkAddress::from_register_address(requested).to_record_key();

        let foreign_v1 = c06_signed_reg(&mallory_sk, meta, &[b"mallory 1"]);
        let foreign_v2 = c06_signed_reg(&mallory_sk, meta, &[b"mallory 1", b"mallory 2"]);
        assert_ne!(*foreign_v1.address(), requested);

        let result_map = c06_answers(&key, &[&foreign_v1, &foreign_v2]);
        if let Ok(Some(record)) = Network::handle_split_record_error(&result_map, &key) {
            let got: SignedRegister = try_deserialize_record(&record)?;
            assert_eq!(
                *got.address(),
                requested,
                "the record returned for the key of {requested:?} holds the register {:?} with ops of {:?}",
                got.address(),
                got.ops().iter().map(|op| op.source()).collect::<Vec<_>>()
            );
        }
        Ok(())
    }

    /// One malicious holder among honest ones that hold two versions (a concurrent update) of the
    /// owner's register: the merge must be the owner's register with the owner's ops, whatever the
    /// order in which the answers are visited.
    #[test]
    fn c06_split_record_one_foreign_answer_among_honest_ones() -> eyre::Result<()> {
        let owner_sk = bls::SecretKey::random();
        let mallory_sk = bls::SecretKey::random();
        let meta = XorName([1; 32]);

        let honest_v1 = c06_signed_reg(&owner_sk, meta, &[b"a"]);
        let honest_v2 = c06_signed_reg(&owner_sk, meta, &[b"a", b"b"]);
        let foreign = c06_signed_reg(&mallory_sk, meta, &[b"mallory"]);
        let requested = *honest_v1.address();
        let key = NetworkAddress::from_register_address(requested).to_record_key();

        // a new HashMap (new RandomState) per round: the visiting order changes
        for round in 0..64 {
            let result_map = c06_answers(&key, &[&honest_v1, &honest_v2, &foreign]);
            let record = Network::handle_split_record_error(&result_map, &key)?
                .expect("a merged register");
            let got: SignedRegister = try_deserialize_record(&record)?;
            assert_eq!(
                *got.address(),
                requested,
                "round {round}: got the register of another owner ({} ops) instead of the requested one",
                got.ops().len()
            );
            assert_eq!(got.ops(), honest_v2.ops(), "round {round}");
        }
        Ok(())
    }
