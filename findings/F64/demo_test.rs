
#[cfg(test)]
mod c06_tests {
    use super::*;

    /// The values a replica rebuilt from the op set presents (this is what `register_get` does
    /// with the `SignedRegister` every other party receives).
    fn values_from_ops(reg: &Register) -> Vec<Bytes> {
        let mut crdt = RegisterCrdt::new(*reg.signed_reg.address());
        for op in reg.signed_reg.ops() {
            crdt.apply_op(op.clone()).expect("same address");
        }
        crdt.read().into_iter().map(|(_h, v)| v.into()).collect()
    }

    /// A write by a key that the owner-signed permissions do not allow must not enter the replica.
    #[test]
    fn c06_write_by_unpermitted_key_does_not_enter_the_local_replica() {
        let owner = RegisterSecretKey::random();
        let stranger = RegisterSecretKey::random();
        let name = XorName::from_content(b"c06");
        let permissions = Permissions::new_with([owner.public_key()]);
        let mut reg = Register::new(Some(Bytes::from_static(b"by owner")), name, owner, permissions)
            .expect("new register");
        assert_eq!(reg.values(), vec![Bytes::from_static(b"by owner")]);

        // the upper layer refuses this op (AccessDenied): the write has to fail or leave the replica as it was
        let res = reg.write_atop(b"by stranger", &stranger);
        assert_eq!(reg.signed_reg.ops().len(), 1, "add_op did refuse the op");
        assert!(
            res.is_err() || reg.values() == vec![Bytes::from_static(b"by owner")],
            "write_atop returned {res:?} and the replica now presents {:?}, its op set gives {:?}",
            reg.values(),
            values_from_ops(&reg)
        );
    }

    /// An entry above the size limit must not enter the replica.
    #[test]
    fn c06_oversized_entry_does_not_enter_the_local_replica() {
        let owner = RegisterSecretKey::random();
        let name = XorName::from_content(b"c06");
        let permissions = Permissions::new_with([owner.public_key()]);
        let big = Bytes::from(vec![7u8; 2000]);
        // this is what `register_create` uploads and hands back to the caller
        if let Ok(reg) = Register::new(Some(big), name, owner, permissions) {
            assert!(reg.signed_reg.verify().is_ok());
            assert_eq!(
                reg.values().iter().map(|v| v.len()).collect::<Vec<_>>(),
                values_from_ops(&reg).iter().map(|v| v.len()).collect::<Vec<_>>(),
                "lengths of the values the local replica presents vs. the values its op set gives"
            );
        }
    }
}
