    /// C01, second audit, finding 2: a key is removed and then validly written again. `remove`
    /// spawns an `fs::remove_file` task on the very file the later `put_verified` writes, and
    /// nothing orders the delete before the write.
    mod c01_remove_then_write_order {
        use super::*;

        /// Runs `body` as a task ON a worker of a multi-threaded tokio runtime (the SwarmDriver,
        /// which owns the store in a node, runs like that). One worker keeps the schedule
        /// reproducible: a task spawned from a worker goes to that worker's LIFO slot and pushes
        /// the previously spawned one to the run queue, so of two tasks spawned back-to-back the
        /// SECOND one runs first. (On a current_thread runtime, which runs spawned tasks in spawn
        /// order, this test passes.)
        fn run_on_worker<F>(body: F)
        where
            F: std::future::Future<Output = ()> + Send + 'static,
        {
            let rt = tokio::runtime::Builder::new_multi_thread()
                .worker_threads(1)
                .enable_all()
                .build()
                .expect("runtime");
            rt.block_on(async move {
                if let Err(err) = tokio::spawn(body).await {
                    std::panic::resume_unwind(err.into_panic());
                }
            });
        }

        fn new_store() -> (NodeRecordStore, mpsc::Receiver<LocalSwarmCmd>) {
            let storage_dir = std::env::temp_dir().join(format!("c01h2_{}", uuid::Uuid::new_v4()));
            fs::create_dir_all(&storage_dir).expect("Failed to create directory");
            let store_config = NodeRecordStoreConfig {
                storage_dir: storage_dir.clone(),
                historic_quote_dir: storage_dir,
                ..Default::default()
            };
            let (network_event_sender, _) = mpsc::channel(1);
            let (swarm_cmd_sender, swarm_cmd_receiver) = mpsc::channel(1000);
            let store = NodeRecordStore::with_config(
                PeerId::random(),
                store_config,
                network_event_sender,
                swarm_cmd_sender,
            );
            (store, swarm_cmd_receiver)
        }

        fn new_record(key: &Key, content: &[u8]) -> (Record, RecordType) {
            let value =
                try_serialize_record(&Bytes::copy_from_slice(content), RecordKind::Register)
                    .expect("serialize")
                    .to_vec();
            let record_type = RecordType::NonChunk(XorName::from_content(&value));
            (
                Record {
                    key: key.clone(),
                    value,
                    publisher: None,
                    expires: None,
                },
                record_type,
            )
        }

        /// What `SwarmDriver::handle_local_cmd` (cmd.rs) does with the store's completion reports.
        fn apply(store: &mut NodeRecordStore, cmd: LocalSwarmCmd) {
            match cmd {
                LocalSwarmCmd::AddLocalRecordAsStored { key, record_type } => {
                    store.mark_as_stored(key, record_type)
                }
                LocalSwarmCmd::RemoveFailedLocalRecord { key } => store.remove(&key),
                other => panic!("unexpected cmd from the store: {other:?}"),
            }
        }

        /// Waits for `n` completion reports, applies them, then lets every remaining task finish.
        async fn settle(
            store: &mut NodeRecordStore,
            receiver: &mut mpsc::Receiver<LocalSwarmCmd>,
            n: usize,
        ) {
            for _ in 0..n {
                let cmd = tokio::time::timeout(Duration::from_secs(10), receiver.recv())
                    .await
                    .expect("completion report in time")
                    .expect("channel open");
                apply(store, cmd);
            }
            sleep(Duration::from_millis(300)).await;
            assert!(receiver.try_recv().is_err(), "no further report expected");
        }

        /// Validated puts under OTHER keys, each one settled before the next: enough of them to
        /// push anything older out of the in-memory FIFO cache.
        async fn later_puts_under_other_keys(
            store: &mut NodeRecordStore,
            receiver: &mut mpsc::Receiver<LocalSwarmCmd>,
        ) {
            for i in 0..(MAX_RECORDS_CACHE_SIZE + 5) {
                let other_key = NetworkAddress::from_peer(PeerId::random()).to_record_key();
                let (other, other_type) = new_record(&other_key, format!("other {i}").as_bytes());
                assert!(store.put_verified(other.clone(), other_type).is_ok());
                settle(store, receiver, 1).await;
                assert_eq!(
                    store.get(&other_key).map(|r| r.value.clone()),
                    Some(other.value)
                );
            }
        }

        #[test]
        fn write_after_remove_is_readable_once_settled() {
            run_on_worker(async {
                let (mut store, mut receiver) = new_store();
                sleep(Duration::from_millis(300)).await;

                let key = NetworkAddress::from_peer(PeerId::random()).to_record_key();
                let (v1, t1) = new_record(&key, b"version 1 of the record");
                let (v2, t2) = new_record(&key, b"version 2, written after the removal");

                assert!(store.put_verified(v1.clone(), t1).is_ok());
                settle(&mut store, &mut receiver, 1).await;
                assert_eq!(store.get(&key).map(|r| r.value.clone()), Some(v1.value));

                store.remove(&key);
                assert!(store.put_verified(v2.clone(), t2).is_ok());
                settle(&mut store, &mut receiver, 1).await;

                assert!(store.contains(&key));
                assert_eq!(
                    store.get(&key).map(|r| r.value.clone()),
                    Some(v2.value.clone()),
                    "right after the write the record is returned"
                );

                later_puts_under_other_keys(&mut store, &mut receiver).await;

                assert!(store.contains(&key), "the key is still listed as stored");
                assert_eq!(
                    store.get(&key).map(|r| r.value.clone()),
                    Some(v2.value),
                    "every accepted validated write is readable exactly as written"
                );
            });
        }
    }
