
// F22 demonstration: append to the end of autonomi/src/client/data/public.rs and run
//   MAX_CHUNK_SIZE=4096 cargo test -p autonomi --offline --lib f22_
#[cfg(test)]
mod f22_demo {
    use super::*;
    use ant_networking::{Network, NetworkBuilder, NetworkEvent};
    use ant_protocol::storage::try_serialize_record;
    use libp2p::{identity::Keypair, kad::Record, Multiaddr};
    use std::sync::Arc;
    use std::time::Duration;
    use xor_name::XorName;

    /// A storage node that answers every GET from its local record store.
    async fn start_node() -> (Network, Multiaddr) {
        let keypair = Keypair::generate_ed25519();
        let peer_id = keypair.public().to_peer_id();
        let mut builder = NetworkBuilder::new(keypair, true);
        builder.listen_addr("127.0.0.1:0".parse().expect("socket addr"));
        let dir = std::env::temp_dir().join(format!("f22_demo_{peer_id}"));
        std::fs::create_dir_all(&dir).expect("node dir");
        let (network, mut events, driver) = builder.build_node(dir).expect("build node");
        let _ = tokio::spawn(driver.run());
        let addr = loop {
            match events.recv().await {
                Some(NetworkEvent::NewListenAddr(addr)) => break addr,
                Some(_) => continue,
                None => panic!("node stopped"),
            }
        };
        let _ = tokio::spawn(async move { while events.recv().await.is_some() {} });
        (network, addr)
    }

    /// A client whose routing table contains exactly the given nodes.
    async fn start_client(peers: &[Multiaddr]) -> Client {
        let (network, mut events, driver) = NetworkBuilder::new(Keypair::generate_ed25519(), true)
            .build_client()
            .expect("build client");
        let _ = tokio::spawn(driver.run());
        for addr in peers {
            network.dial(addr.clone()).await.expect("dial");
        }
        let mut added = 0;
        while added < peers.len() {
            match tokio::time::timeout(Duration::from_secs(30), events.recv()).await {
                Ok(Some(NetworkEvent::PeerAdded(..))) => added += 1,
                Ok(Some(_)) => continue,
                _ => panic!("could not connect to the in-process node"),
            }
        }
        let _ = tokio::spawn(async move { while events.recv().await.is_some() {} });
        Client {
            network,
            client_event_sender: Arc::new(None),
            evm_network: Default::default(),
        }
    }

    /// Make `node` hold `content` under the record key of chunk address `at`.
    fn store_at(node: &Network, at: XorName, content: &Chunk) {
        node.put_local_record(Record {
            key: NetworkAddress::from_chunk_address(ChunkAddress::new(at)).to_record_key(),
            value: try_serialize_record(content, RecordKind::Chunk)
                .expect("serialise")
                .to_vec(),
            publisher: None,
            expires: None,
        });
    }

    // F22 (C14): "encrypting it and then fetching and decrypting through its data map returns the original bytes, including
    // when the data map itself must be split over several levels".
    // Build with a small maximum chunk size (the crate reads MAX_CHUNK_SIZE at compile time) so that a 300 kB input already
    // needs an additional data-map level:   MAX_CHUNK_SIZE=4096 cargo test -p autonomi --offline --lib f22_
    #[tokio::test(flavor = "multi_thread")]
    async fn f22_multi_level_data_map_round_trips() {
        assert!(*self_encryption::MAX_CHUNK_SIZE <= 4096, "build this test with MAX_CHUNK_SIZE=4096");
        let mut state = 0x2545F4914F6CDD1Du64;
        let data: Vec<u8> = (0..300_000).map(|_| { state ^= state << 13; state ^= state >> 7; state ^= state << 17; (state >> 24) as u8 }).collect();
        let data = Bytes::from(data);
        let (data_map_chunk, chunks) = encrypt(data.clone()).expect("encrypt");
        // the root really is an additional level
        let root: crate::self_encryption::DataMapLevel = rmp_serde::from_slice(data_map_chunk.value()).expect("root level");
        assert!(matches!(root, crate::self_encryption::DataMapLevel::Additional(_)), "the data map was expected to need an additional level");

        let (node, addr) = start_node().await;
        for chunk in chunks.iter().chain(std::iter::once(&data_map_chunk)) {
            store_at(&node, *chunk.name(), chunk);
        }
        tokio::time::sleep(Duration::from_millis(500)).await;
        let client = start_client(&[addr]).await;
        let got = client.data_get_public(*data_map_chunk.name()).await;
        match got {
            Ok(bytes) => assert_eq!(bytes, data, "round trip returned other bytes"),
            Err(err) => panic!("a multi-level data map written by encrypt() cannot be read back: {err:?}"),
        }
    }
}
