// C09 finding 2 -- demonstration.
// Run:  CARGO_TARGET_DIR=/tmp/wt/C09hunt/target USER=root cargo test -p ant-node --offline --lib c09_register_accepted_and_stored
// The harness block (imports, `TestNode`, `register_record`, `new_register`, `new_op`) is shared by the
// demonstrations of findings 1, 2 and 3: when several of them are added to the same file it is added once.

// ===== Part 1: appended inside `mod tests` of ant-node/src/node.rs (before its closing brace) =====

    // ------------------------------------------------------------------------------------------
    // C09 demonstrations: real nodes, wired together in-process over the loopback interface.
    //
    // Every node is started with the production `NodeBuilder::build_and_run` (local mode, so that
    // loopback addresses are dialable). Records are put into a node's store through the node's own
    // acceptance functions (`store_chunk`, `store_replicated_in_record`, `validate_and_store_register`,
    // `validate_and_store_record`), replication is the node's own: the `PeerAdded` round that both
    // nodes run when they connect, and further rounds asked for with `trigger_interval_replication`.
    // ------------------------------------------------------------------------------------------
    use ant_protocol::storage::{
        try_deserialize_record, try_serialize_record, Chunk, RecordKind, Scratchpad, Transaction,
    };
    use ant_registers::{Permissions, Register, RegisterCrdt, RegisterOp, SignedRegister};
    use libp2p::kad::{Record, RecordKey};
    use libp2p::multiaddr::Protocol;
    use std::collections::BTreeSet;
    use xor_name::XorName;

    struct TestNode {
        node: Node,
        addr: Multiaddr,
        _root: tempfile::TempDir,
    }

    impl TestNode {
        async fn start() -> Self {
            let root = tempfile::tempdir().expect("temp dir");
            let running = NodeBuilder::new(
                Keypair::generate_ed25519(),
                RewardsAddress::default(),
                EvmNetwork::default(),
                "127.0.0.1:0".parse().expect("socket addr"),
                true,
                root.path().to_path_buf(),
                #[cfg(feature = "upnp")]
                false,
            )
            .build_and_run()
            .expect("node starts");

            // A handle on the very same running node (same `Network`), to be able to call the
            // node's record acceptance functions.
            let node = Node {
                inner: Arc::new(NodeInner {
                    events_channel: running.node_events_channel.clone(),
                    initial_peers: vec![],
                    network: running.network.clone(),
                    #[cfg(feature = "open-metrics")]
                    metrics_recorder: None,
                    reward_address: RewardsAddress::default(),
                    evm_network: EvmNetwork::default(),
                }),
            };

            let peer_id = node.network().peer_id();
            let addr = loop {
                let state = node
                    .network()
                    .get_swarm_local_state()
                    .await
                    .expect("swarm state");
                if let Some(addr) = state.listeners.first() {
                    let mut addr = addr.clone();
                    if addr.iter().last() != Some(Protocol::P2p(peer_id)) {
                        addr.push(Protocol::P2p(peer_id));
                    }
                    break addr;
                }
                tokio::time::sleep(Duration::from_millis(100)).await;
            };

            Self {
                node,
                addr,
                _root: root,
            }
        }

        async fn holds(&self, key: &RecordKey) -> bool {
            self.node
                .network()
                .is_record_key_present_locally(key)
                .await
                .expect("store query")
        }

        async fn wait_until_holds(&self, key: &RecordKey, secs: u64) -> bool {
            for _ in 0..secs * 10 {
                if self.holds(key).await {
                    return true;
                }
                tokio::time::sleep(Duration::from_millis(100)).await;
            }
            false
        }

        async fn bytes_of(&self, key: &RecordKey) -> Option<Vec<u8>> {
            self.node
                .network()
                .get_local_record(key)
                .await
                .expect("store query")
                .map(|r| r.value)
        }
    }

    fn register_record(reg: &SignedRegister) -> Record {
        Record {
            key: NetworkAddress::from_register_address(*reg.address()).to_record_key(),
            value: try_serialize_record(reg, RecordKind::Register)
                .expect("serialise")
                .to_vec(),
            publisher: None,
            expires: None,
        }
    }

    fn new_register(owner: &bls::SecretKey) -> SignedRegister {
        let base = Register::new(
            owner.public_key(),
            XorName::random(&mut thread_rng()),
            Permissions::default(),
        );
        let signature = owner.sign(base.bytes().expect("register bytes"));
        SignedRegister::new(base, signature, BTreeSet::new())
    }

    // An op as a writer's replica produces it: a new root entry holding `value`.
    fn new_op(reg: &SignedRegister, value: Vec<u8>, writer: &bls::SecretKey) -> RegisterOp {
        let mut crdt = RegisterCrdt::new(*reg.address());
        let (_hash, address, crdt_op) = crdt.write(value, &BTreeSet::new()).expect("crdt write");
        RegisterOp::new(address, crdt_op, writer)
    }

    /// Property: "Any record a node has accepted and stored is accepted by an honest in-range
    /// neighbour with spare capacity when fetched through replication".
    ///
    /// History: two writer replicas of one register. One has written 1024 entries (the limit of
    /// `SignedRegister::verify`), the other one a single entry of its own. Each uploads its
    /// replica to node A, which accepts both and stores their merge.
    #[tokio::test(flavor = "multi_thread", worker_threads = 4)]
    async fn c09_register_accepted_and_stored_by_a_node_replicates_to_its_neighbour() {
        let a = TestNode::start().await;
        let b = TestNode::start().await;

        let owner = bls::SecretKey::random();

        // control: an immutable chunk that only A holds
        let chunk = Chunk::new(Bytes::from_static(b"c09 control chunk, held by A only"));
        let chunk_key = chunk.network_address().to_record_key();
        a.node.store_chunk(&chunk).expect("A stores the chunk");

        let empty = new_register(&owner);
        let mut replica_1 = empty.clone();
        for i in 0..1024u32 {
            let op = new_op(&empty, format!("entry {i}").into_bytes(), &owner);
            replica_1.add_op(op).expect("within the limit");
        }
        let mut replica_2 = empty.clone();
        replica_2
            .add_op(new_op(&empty, b"entry of the other replica".to_vec(), &owner))
            .expect("within the limit");
        replica_1.verify().expect("replica 1 is a valid register");
        replica_2.verify().expect("replica 2 is a valid register");
        let reg_key = register_record(&empty).key;

        // first upload: what the `RegisterWithPayment` arm of `validate_and_store_record` does once
        // the payment is verified
        a.node
            .validate_and_store_register(replica_1, true)
            .await
            .expect("A accepts replica 1");
        assert!(a.wait_until_holds(&reg_key, 10).await, "A indexed the register");
        // update of a held register: the unpaid `Register` arm of `validate_and_store_record`
        a.node
            .validate_and_store_record(register_record(&replica_2))
            .await
            .expect("A accepts replica 2");

        // A now holds the merge of the two replicas
        let mut ops_held_by_a = 0;
        for _ in 0..100 {
            let record = Record::new(reg_key.clone(), a.bytes_of(&reg_key).await.expect("held"));
            ops_held_by_a = try_deserialize_record::<SignedRegister>(&record)
                .expect("a register")
                .ops()
                .len();
            if ops_held_by_a == 1025 {
                break;
            }
            tokio::time::sleep(Duration::from_millis(100)).await;
        }
        assert_eq!(ops_held_by_a, 1025, "A accepted and stored both replicas' entries");
        tokio::time::sleep(Duration::from_secs(1)).await; // the merge is written and indexed

        // B becomes A's neighbour: both run a replication round carrying all their records
        b.node
            .network()
            .dial(a.addr.clone())
            .await
            .expect("B dials A");
        assert!(
            b.wait_until_holds(&chunk_key, 30).await,
            "control failed: B did not even fetch the chunk that only A holds"
        );

        let replicated = b.wait_until_holds(&reg_key, 20).await;
        // what B answers when it is handed exactly the record A serves for this key
        let served_by_a = Record::new(reg_key.clone(), a.bytes_of(&reg_key).await.expect("held"));
        let direct = b.node.store_replicated_in_record(served_by_a).await;
        assert!(
            replicated,
            "B (empty store, only neighbour of A) fetched A's chunk but not the register A has \
             accepted and stored; handing B the record A serves gives: {direct:?}"
        );
        assert_eq!(a.bytes_of(&reg_key).await, b.bytes_of(&reg_key).await);
    }
