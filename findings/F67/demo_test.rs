// C19 demonstration: the service process is identified by comparing the binary path that `add`
// recorded (not normalised) with the executable path the OS reports for a live process (resolved).
// When `--data-dir-path` reaches the services directory through a symbolic link the two never
// match: with no fault at all, `start` launches the process and reports a failure, `stop` and
// `remove` then succeed without touching the process, which stays alive.
//
// Everything that decides the outcome is production code: `add_node`, `ServiceManager::start`,
// `ServiceManager::stop`, `ServiceManager::remove`, `NodeService` and the real
// `ServiceController::get_process_pid`. Only the init system is simulated (`SimOs`): `install`
// remembers the program of the service definition, `start` executes that program (as systemd
// executes `ExecStart`), `stop` kills it, `uninstall` forgets the definition (as the systemd
// backend of the service-manager crate does, it does not stop anything).

use ant_bootstrap::PeersArgs;
use ant_evm::{EvmNetwork, RewardsAddress};
use ant_node_manager::{
    add_services::{add_node, config::AddNodeServiceOptions},
    ServiceManager, VerbosityLevel,
};
use ant_service_management::{
    control::{ServiceControl, ServiceController},
    error::{Error as ServiceError, Result as ServiceResult},
    rpc::{NetworkInfo, NodeInfo, RecordAddress, RpcActions},
    NodeRegistry, NodeService, ServiceStatus,
};
use async_trait::async_trait;
use libp2p_identity::PeerId;
use service_manager::ServiceInstallCtx;
use std::{
    collections::HashMap,
    path::{Path, PathBuf},
    process::{Child, Command, Stdio},
    str::FromStr,
    sync::{Arc, Mutex},
    time::Duration,
};

#[derive(Default)]
struct OsState {
    /// service name -> program of the installed service definition
    installed: Mutex<HashMap<String, PathBuf>>,
    /// service name -> the process the init system launched for it
    children: Mutex<HashMap<String, Child>>,
}

impl OsState {
    fn live_pid(&self, name: &str) -> Option<u32> {
        let mut children = self.children.lock().unwrap();
        let child = children.get_mut(name)?;
        match child.try_wait() {
            Ok(None) => Some(child.id()),
            _ => None,
        }
    }
}

impl Drop for OsState {
    fn drop(&mut self) {
        for (_, child) in self.children.lock().unwrap().iter_mut() {
            let _ = child.kill();
            let _ = child.wait();
        }
    }
}

/// The simulated init system. The process lookup is NOT simulated: it is the production one.
struct SimOs(Arc<OsState>);

impl ServiceControl for SimOs {
    fn create_service_user(&self, _username: &str) -> ServiceResult<()> {
        Ok(())
    }
    fn get_available_port(&self) -> ServiceResult<u16> {
        ServiceController {}.get_available_port()
    }
    fn install(&self, install_ctx: ServiceInstallCtx, _user_mode: bool) -> ServiceResult<()> {
        self.0
            .installed
            .lock()
            .unwrap()
            .insert(install_ctx.label.to_script_name(), install_ctx.program);
        Ok(())
    }
    fn get_process_pid(&self, bin_path: &Path) -> ServiceResult<u32> {
        // the real probe of ant-service-management/src/control.rs
        ServiceController {}.get_process_pid(bin_path)
    }
    fn start(&self, service_name: &str, _user_mode: bool) -> ServiceResult<()> {
        let program = self
            .0
            .installed
            .lock()
            .unwrap()
            .get(service_name)
            .cloned()
            .ok_or_else(|| ServiceError::ServiceDoesNotExists(service_name.to_string()))?;
        // The stand-in binary is a copy of /bin/sleep, so it is given a duration instead of the
        // antnode arguments. `spawn` returns once the exec has happened.
        let child = Command::new(program)
            .arg("600")
            .stdin(Stdio::null())
            .stdout(Stdio::null())
            .stderr(Stdio::null())
            .spawn()?;
        self.0
            .children
            .lock()
            .unwrap()
            .insert(service_name.to_string(), child);
        Ok(())
    }
    fn stop(&self, service_name: &str, _user_mode: bool) -> ServiceResult<()> {
        if let Some(child) = self.0.children.lock().unwrap().get_mut(service_name) {
            let _ = child.kill();
            let _ = child.wait();
        }
        Ok(())
    }
    fn uninstall(&self, service_name: &str, _user_mode: bool) -> ServiceResult<()> {
        self.0.installed.lock().unwrap().remove(service_name);
        Ok(())
    }
    fn wait(&self, _delay: u64) {}
}

/// A node RPC service that always answers: no fault is injected anywhere in this test.
struct HealthyRpc;

#[async_trait]
impl RpcActions for HealthyRpc {
    async fn node_info(&self) -> ServiceResult<NodeInfo> {
        Ok(NodeInfo {
            pid: 0,
            peer_id: PeerId::random(),
            log_path: PathBuf::new(),
            data_path: PathBuf::new(),
            version: "0.1.0".to_string(),
            uptime: Duration::from_secs(1),
            wallet_balance: 0,
        })
    }
    async fn network_info(&self) -> ServiceResult<NetworkInfo> {
        Ok(NetworkInfo {
            connected_peers: vec![],
            listeners: vec![],
        })
    }
    async fn record_addresses(&self) -> ServiceResult<Vec<RecordAddress>> {
        Ok(vec![])
    }
    async fn node_restart(&self, _delay_millis: u64, _retain_peer_id: bool) -> ServiceResult<()> {
        Ok(())
    }
    async fn node_stop(&self, _delay_millis: u64) -> ServiceResult<()> {
        Ok(())
    }
    async fn node_update(&self, _delay_millis: u64) -> ServiceResult<()> {
        Ok(())
    }
    async fn is_node_connected_to_network(&self, _timeout: Duration) -> ServiceResult<()> {
        Ok(())
    }
    async fn update_log_level(&self, _log_levels: String) -> ServiceResult<()> {
        Ok(())
    }
}

/// add, start, stop, remove of one service whose data directory prefix is `data_dir_prefix`
/// (the value of `antctl add --data-dir-path`). Returns what the property forbids, if anything.
async fn lifecycle(root: &Path, tag: &str, data_dir_prefix: PathBuf) -> Vec<String> {
    let mut violations = Vec::new();
    let os = Arc::new(OsState::default());

    let antnode_src = root.join(format!("src-{tag}")).join("antnode");
    std::fs::create_dir_all(antnode_src.parent().unwrap()).unwrap();
    std::fs::copy("/bin/sleep", &antnode_src).unwrap();

    let mut registry = NodeRegistry {
        auditor: None,
        daemon: None,
        environment_variables: None,
        faucet: None,
        nat_status: None,
        nodes: vec![],
        save_path: root.join(format!("node_registry-{tag}.json")),
    };

    let added = add_node(
        AddNodeServiceOptions {
            antnode_dir_path: data_dir_prefix.clone(),
            antnode_src_path: antnode_src,
            auto_restart: false,
            auto_set_nat_flags: false,
            count: None,
            delete_antnode_src: false,
            enable_metrics_server: false,
            env_variables: None,
            evm_network: EvmNetwork::ArbitrumOne,
            home_network: false,
            log_format: None,
            max_archived_log_files: None,
            max_log_files: None,
            metrics_port: None,
            network_id: None,
            node_ip: None,
            node_port: None,
            owner: None,
            peers_args: PeersArgs::default(),
            rewards_address: RewardsAddress::from_str(
                "0x03B770D9cD32077cC0bF330c13C114a87643B124",
            )
            .unwrap(),
            rpc_address: None,
            rpc_port: None,
            service_data_dir_path: data_dir_prefix,
            service_log_dir_path: root.join(format!("logs-{tag}")),
            upnp: false,
            user: None,
            user_mode: true,
            version: "0.1.0".to_string(),
        },
        &mut registry,
        &SimOs(os.clone()),
        VerbosityLevel::Minimal,
    )
    .await
    .expect("add_node succeeds");
    assert_eq!(added, vec!["antnode1".to_string()]);
    println!(
        "[{tag}] recorded binary path: {}",
        registry.nodes[0].antnode_path.display()
    );

    let service = NodeService::new(&mut registry.nodes[0], Box::new(HealthyRpc));
    let mut manager = ServiceManager::new(
        service,
        Box::new(SimOs(os.clone())),
        VerbosityLevel::Minimal,
    );

    // --- start -------------------------------------------------------------------------------
    let started = manager.start().await;
    let live = os.live_pid("antnode1");
    println!(
        "[{tag}] start -> {:?}; recorded {:?} / pid {:?}; live process {:?}",
        started.as_ref().map_err(|e| e.to_string()),
        manager.service.service_data.status,
        manager.service.service_data.pid,
        live
    );
    if manager.service.service_data.status == ServiceStatus::Running
        && (live.is_none() || manager.service.service_data.pid != live)
    {
        violations.push(format!(
            "after start: recorded Running with pid {:?}, live process {live:?}",
            manager.service.service_data.pid
        ));
    }

    // --- stop --------------------------------------------------------------------------------
    let stopped = manager.stop().await;
    let live = os.live_pid("antnode1");
    println!(
        "[{tag}] stop -> {:?}; recorded {:?} / pid {:?}; live process {:?}",
        stopped.as_ref().map_err(|e| e.to_string()),
        manager.service.service_data.status,
        manager.service.service_data.pid,
        live
    );
    if stopped.is_ok() && (live.is_some() || manager.service.service_data.pid.is_some()) {
        violations.push(format!(
            "after a successful stop: live process {live:?}, recorded pid {:?}",
            manager.service.service_data.pid
        ));
    }

    // --- remove ------------------------------------------------------------------------------
    let removed = manager.remove(false).await;
    let live = os.live_pid("antnode1");
    println!(
        "[{tag}] remove -> {:?}; recorded {:?} / pid {:?}; live process {:?}",
        removed.as_ref().map_err(|e| e.to_string()),
        manager.service.service_data.status,
        manager.service.service_data.pid,
        live
    );
    if removed.is_ok() && (live.is_some() || manager.service.service_data.pid.is_some()) {
        violations.push(format!(
            "after a successful removal: live process {live:?}, recorded pid {:?}",
            manager.service.service_data.pid
        ));
    }

    violations
}

#[tokio::test]
async fn a_successful_stop_or_removal_leaves_no_process_whatever_the_data_dir_path() {
    let tmp = assert_fs::TempDir::new().unwrap();
    let root = tmp.path().canonicalize().unwrap();

    // <root>/disk is the real directory, <root>/link is a symbolic link to it
    std::fs::create_dir_all(root.join("disk")).unwrap();
    std::os::unix::fs::symlink(root.join("disk"), root.join("link")).unwrap();

    // Control: `--data-dir-path <root>/disk/services`. The harness and the production code agree.
    let control = lifecycle(&root, "plain", root.join("disk").join("services")).await;
    assert_eq!(control, Vec::<String>::new(), "control run (no symlink)");

    // `--data-dir-path <root>/link/services`: the same directory, reached through the link.
    let through_link = lifecycle(&root, "symlink", root.join("link").join("services")).await;
    assert_eq!(
        through_link,
        Vec::<String>::new(),
        "data directory reached through a symbolic link"
    );
}
