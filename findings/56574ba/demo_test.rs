
#[cfg(test)]
mod finding_failure_rate_overflow {
    use super::*;

    /// Counters are plain `pub u32` fields that are (de)serialised from the cache file, so any
    /// pair of u32 values can show up. The failure rate of 4e9 successes / 1e9 failures is 0.2.
    #[test]
    fn failure_rate_with_large_counters() {
        let json = r#"{"addr":"/ip4/127.0.0.1/udp/8080/quic-v1/p2p/12D3KooWRBhwfeP2Y4TCx1SM6s9rUoHhR5STiGwxBhgFRcw3UERE","success_count":4000000000,"failure_count":1000000000,"last_seen":{"secs_since_epoch":1700000000,"nanos_since_epoch":0}}"#;
        let addr: BootstrapAddr = serde_json::from_str(json).expect("cache entry deserialises");
        assert_eq!(addr.success_count, 4_000_000_000);
        assert_eq!(addr.failure_count, 1_000_000_000);

        // public entry point used when loading / sorting the cache
        let addrs = BootstrapAddresses(vec![addr.clone()]);
        let res = std::panic::catch_unwind(|| addrs.get_least_faulty().map(|a| a.addr.clone()));
        assert!(
            res.is_ok(),
            "BootstrapAddresses::get_least_faulty PANICKED on an entry with success_count 4e9 / failure_count 1e9"
        );

        let rate = addr.failure_rate();
        assert!(
            (rate - 0.2).abs() < 1e-9,
            "failure_rate must be 1e9 / 5e9 = 0.2 but is {rate}"
        );
    }
}
