
// ---------------------------------------------------------------------------------------------
// C20 demo 2: a genesis service added while ANT_PEERS is set gets `--first --peer <addr>`, an
// argument list that antnode refuses to parse.
//
// Install: append this file to ant-node/src/bin/antnode/main.rs and run
//   CARGO_TARGET_DIR=/tmp/wt/C20hunt/target \
//     cargo test -p ant-node --offline --bin antnode c20_first_with_ant_peers
//
// `antctl add --first ...` with ANT_PEERS exported in the shell: `cmd::node::add`
// (ant-node-manager/src/cmd/node.rs) does, unconditionally,
//     peers_args.addrs.extend(PeersArgs::read_addr_from_env());
// and hands the result to `add_node`, which records it in the registry and writes it through
// `push_arguments_from_peers_args` (the writer shared by the install builder and by
// `build_upgrade_install_context`). antnode's clap definition declares `--peer` as
// `conflicts_with = "first"` (ant-bootstrap/src/initial_peers.rs), so the service exits with a
// usage error every time it is started -- after installation and after every upgrade.
//
// The test uses the real reader of ANT_PEERS, the real manager writer and antnode's real `Opt`.
// ---------------------------------------------------------------------------------------------
#[cfg(test)]
mod c20_first_with_ant_peers {
    use super::*;
    use ant_service_management::{
        rpc::RpcClient, NodeService, NodeServiceData, ServiceStateActions, ServiceStatus,
        UpgradeOptions,
    };
    use std::{ffi::OsString, str::FromStr};

    #[test]
    fn c20_first_with_ant_peers_is_accepted_by_antnode() {
        // The environment `antctl add` runs in.
        std::env::set_var(
            "ANT_PEERS",
            "/ip4/10.0.0.1/udp/12000/quic-v1/p2p/12D3KooWRi6wF7yxWLuPSNskXc6kQ5cJ6eaymeMbCRdTnMesPgFx",
        );

        // What antctl's own clap parser yields for `antctl add --first ...`
        let mut peers_args = PeersArgs {
            first: true,
            ..Default::default()
        };
        // cmd::node::add, verbatim
        peers_args.addrs.extend(PeersArgs::read_addr_from_env());
        std::env::remove_var("ANT_PEERS");
        assert_eq!(peers_args.addrs.len(), 1, "ANT_PEERS was picked up");

        // What add_node records for the service ...
        let rpc_socket_addr = SocketAddr::new(IpAddr::V4(Ipv4Addr::new(127, 0, 0, 1)), 8081);
        let mut service_data = NodeServiceData {
            antnode_path: PathBuf::from("/var/antctl/services/antnode1/antnode"),
            auto_restart: false,
            connected_peers: None,
            data_dir_path: PathBuf::from("/var/antctl/services/antnode1"),
            evm_network: EvmNetwork::ArbitrumOne,
            home_network: false,
            listen_addr: None,
            log_dir_path: PathBuf::from("/var/log/antnode/antnode1"),
            log_format: None,
            max_archived_log_files: None,
            max_log_files: None,
            metrics_port: None,
            owner: None,
            network_id: None,
            node_ip: None,
            node_port: None,
            number: 1,
            peer_id: None,
            peers_args: peers_args.clone(),
            pid: None,
            rewards_address: RewardsAddress::from_str("0x03B770D9cD32077cC0bF330c13C114a87643B124")
                .unwrap(),
            reward_balance: None,
            rpc_socket_addr,
            service_name: "antnode1".to_string(),
            status: ServiceStatus::Added,
            upnp: false,
            user: Some("ant".to_string()),
            user_mode: false,
            version: "0.1.0".to_string(),
        };

        // ... and the argument list the manager writes for it.
        let service = NodeService::new(
            &mut service_data,
            Box::new(RpcClient::from_socket_addr(rpc_socket_addr)),
        );
        let ctx = service
            .build_upgrade_install_context(UpgradeOptions {
                auto_restart: false,
                env_variables: None,
                force: false,
                start_service: true,
                target_bin_path: PathBuf::from("/tmp/antnode"),
                target_version: "0.2.0".parse().unwrap(),
            })
            .unwrap();
        println!("argument list written by the manager: {:?}", ctx.args);

        let mut argv = vec![OsString::from("antnode")];
        argv.extend(ctx.args.iter().cloned());
        let parsed = Opt::try_parse_from(argv);

        // The property: antnode accepts it and reads it as the intended configuration.
        let opt = match parsed {
            Ok(opt) => opt,
            Err(err) => panic!("antnode rejects the argument list written by the manager:\n{err}"),
        };
        assert!(opt.peers.first);
    }
}
