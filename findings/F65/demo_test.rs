
    /// C05 (third audit): a split read between two registers of the same address whose base
    /// registers differ (same owner and meta, different permissions), each validly signed by the
    /// owner. The property promises the full set of versions or a deterministic merge, never an
    /// arbitrary pick.
    #[test]
    fn c05_split_registers_with_different_base_are_not_an_arbitrary_pick() -> eyre::Result<()> {
        use ant_registers::{Permissions, Register, RegisterCrdt, RegisterOp};
        use std::collections::BTreeSet;

        let owner = bls::SecretKey::random();
        let other_writer = bls::SecretKey::random();
        let meta = XorName::from_content(b"c05 register");

        // two base registers for one address: the owner signed both
        let base_1 = Register::new(
            owner.public_key(),
            meta,
            Permissions::new_anyone_can_write(),
        );
        let base_2 = Register::new(
            owner.public_key(),
            meta,
            Permissions::new_with([other_writer.public_key()]),
        );
        assert_eq!(base_1.address(), base_2.address());
        let key = NetworkAddress::from_register_address(*base_1.address()).to_record_key();

        let make = |base: &Register, entry: &[u8]| -> eyre::Result<(Record, RegisterOp)> {
            let mut crdt = RegisterCrdt::new(*base.address());
            let (_hash, address, crdt_op) = crdt.write(entry.to_vec(), &BTreeSet::new())?;
            let op = RegisterOp::new(address, crdt_op, &owner);
            let signature = owner.sign(base.bytes()?);
            let signed = SignedRegister::new(base.clone(), signature, BTreeSet::from([op.clone()]));
            // each version on its own is a verified register of the address that is read
            signed.verify_with_address(*base.address())?;
            let record = Record {
                key: key.clone(),
                value: try_serialize_record(&signed, RecordKind::Register)?.to_vec(),
                publisher: None,
                expires: None,
            };
            Ok((record, op))
        };
        let (record_1, op_1) = make(&base_1, b"entry of version 1")?;
        let (record_2, op_2) = make(&base_2, b"entry of version 2")?;

        // The same two versions, held by the same two peers, read 64 times. Every query has its own
        // result map (`Default::default()` in `handle_network_cmd`), as here.
        let peer_1 = PeerId::random();
        let peer_2 = PeerId::random();
        let mut outcomes = BTreeSet::new();
        for _ in 0..64 {
            let mut result_map = HashMap::new();
            for (record, peer) in [(&record_1, peer_1), (&record_2, peer_2)] {
                let _ = result_map.insert(
                    XorName::from_content(&record.value),
                    (record.clone(), HashSet::from([peer])),
                );
            }
            // what the caller of `get_record_from_network` gets back for this split
            let outcome = match Network::handle_split_record_error(&result_map, &key)? {
                Some(record) => {
                    let merged = try_deserialize_record::<SignedRegister>(&record)?;
                    format!(
                        "Ok(register with permissions {:?}, op of version 1: {}, op of version 2: {})",
                        merged.base_register().permissions(),
                        merged.ops().contains(&op_1),
                        merged.ops().contains(&op_2)
                    )
                }
                None => "Err(SplitRecord with both versions)".to_string(),
            };
            let _ = outcomes.insert(outcome);
        }

        // never an arbitrary pick: the same versions always resolve to the same outcome
        assert_eq!(
            outcomes.len(),
            1,
            "the same two versions from the same two peers were resolved differently from read to read: {outcomes:#?}"
        );
        // and a merged value is the union of the verified operations of the versions
        for outcome in &outcomes {
            assert!(
                !outcome.contains("false"),
                "the read succeeded with a register that is not the union of the verified operations: {outcome}"
            );
        }
        Ok(())
    }
