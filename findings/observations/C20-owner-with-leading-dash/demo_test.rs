// ===== Part A: appended to ant-node/src/bin/antnode/main.rs (self-contained: real upgrade builder + real clap parser of antnode) =====

// ---- C20 hunt 3, finding 1: appended to ant-node/src/bin/antnode/main.rs ----
// The argument list that antctl regenerates on `antctl upgrade` (NodeService::build_upgrade_install_context,
// the same two arguments InstallNodeServiceCtxBuilder::build writes at installation) is given to the
// real clap parser of antnode.
#[cfg(test)]
mod manager_written_arguments {
    use super::Opt;
    use ant_bootstrap::PeersArgs;
    use ant_evm::{EvmNetwork, RewardsAddress};
    use ant_service_management::{
        rpc::RpcClient, NodeService, NodeServiceData, ServiceStateActions, ServiceStatus,
        UpgradeOptions,
    };
    use clap::Parser;
    use std::{ffi::OsString, path::PathBuf, str::FromStr};

    /// What `antctl add --owner=<owner> --rewards-address .. evm-arbitrum-one` records for antnode1
    /// (add_node lower-cases the owner and stores it as given otherwise).
    fn recorded_service(owner: &str) -> NodeServiceData {
        NodeServiceData {
            antnode_path: PathBuf::from("/var/antctl/services/antnode1/antnode"),
            auto_restart: false,
            connected_peers: None,
            data_dir_path: PathBuf::from("/var/antctl/services/antnode1"),
            evm_network: EvmNetwork::ArbitrumOne,
            home_network: false,
            listen_addr: None,
            log_dir_path: PathBuf::from("/var/log/antnode/antnode1"),
            log_format: None,
            max_archived_log_files: None,
            max_log_files: None,
            metrics_port: None,
            network_id: None,
            node_ip: None,
            node_port: None,
            number: 1,
            owner: Some(owner.to_string()),
            peer_id: None,
            peers_args: PeersArgs::default(),
            pid: None,
            rewards_address: RewardsAddress::from_str("0x03B770D9cD32077cC0bF330c13C114a87643B124")
                .unwrap(),
            reward_balance: None,
            rpc_socket_addr: "127.0.0.1:8081".parse().unwrap(),
            service_name: "antnode1".to_string(),
            status: ServiceStatus::Stopped,
            upnp: false,
            user: Some("ant".to_string()),
            user_mode: false,
            version: "0.3.0".to_string(),
        }
    }

    fn upgrade_command_line(owner: &str) -> Vec<OsString> {
        let mut data = recorded_service(owner);
        let rpc = RpcClient::from_socket_addr(data.rpc_socket_addr);
        let service = NodeService::new(&mut data, Box::new(rpc));
        let ctx = service
            .build_upgrade_install_context(UpgradeOptions {
                auto_restart: false,
                env_variables: None,
                force: false,
                start_service: true,
                target_bin_path: PathBuf::from("/tmp/antnode"),
                target_version: "0.3.1".parse().unwrap(),
            })
            .unwrap();
        let mut command_line = vec![OsString::from("antnode")];
        command_line.extend(ctx.args);
        command_line
    }

    /// Control: an ordinary owner is accepted and understood.
    #[test]
    fn antnode_accepts_the_upgrade_arguments_with_an_ordinary_owner() {
        let opt = Opt::try_parse_from(upgrade_command_line("alice")).unwrap();
        assert_eq!(opt.owner, Some("alice".to_string()));
    }

    /// `antctl add --owner=-alice ...` is accepted by antctl; the arguments written for the service
    /// must be accepted by antnode and give it that owner.
    #[test]
    fn antnode_accepts_the_upgrade_arguments_with_an_owner_that_starts_with_a_hyphen() {
        let command_line = upgrade_command_line("-alice");
        println!("antctl writes: {command_line:?}");
        match Opt::try_parse_from(command_line) {
            Ok(opt) => assert_eq!(opt.owner, Some("-alice".to_string())),
            Err(err) => panic!("antnode refuses the arguments antctl wrote: {err}"),
        }
    }
}

// ===== Part B: appended to ant-node-manager/src/add_services/tests.rs (end to end: real add_node + real upgrade builder + real antnode binary) =====

// ---- C20 hunt 3, finding 1: appended to ant-node-manager/src/add_services/tests.rs ----
// End to end over the real code: add_node (installation), NodeService::build_upgrade_install_context
// (upgrade) and the real antnode binary built from the same source
// (`cargo build -p ant-node --bin antnode --offline` first; it is looked up next to the test binary).
// antnode is run as `antnode --version <arguments antctl wrote>`: clap parses and validates the
// whole command line, then main prints the version and exits 0 without starting a node.
fn run_the_real_antnode_parser(args: &[OsString]) -> std::process::Output {
    let test_exe = std::env::current_exe().expect("test executable path");
    let antnode = test_exe
        .parent()
        .and_then(|deps| deps.parent())
        .expect("target/debug")
        .join(ANTNODE_FILE_NAME);
    assert!(
        antnode.exists(),
        "{antnode:?} is missing: run `cargo build -p ant-node --bin antnode --offline` first"
    );
    std::process::Command::new(antnode)
        .arg("--version")
        .args(args)
        .output()
        .expect("antnode could not be run")
}

#[tokio::test]
async fn antnode_accepts_the_arguments_written_for_an_owner_that_starts_with_a_hyphen() -> Result<()>
{
    use ant_service_management::{
        rpc::RpcClient, NodeService, ServiceStateActions, UpgradeOptions,
    };
    use std::sync::{Arc, Mutex};

    let tmp_data_dir = assert_fs::TempDir::new()?;
    let node_reg_path = tmp_data_dir.child("node_reg.json");
    let temp_dir = assert_fs::TempDir::new()?;
    let node_data_dir = temp_dir.child("data");
    node_data_dir.create_dir_all()?;
    let node_logs_dir = temp_dir.child("logs");
    node_logs_dir.create_dir_all()?;
    let antnode_download_path = temp_dir.child(ANTNODE_FILE_NAME);
    antnode_download_path.write_binary(b"fake antnode bin")?;

    let mut node_registry = NodeRegistry {
        auditor: None,
        daemon: None,
        environment_variables: None,
        faucet: None,
        nat_status: None,
        nodes: vec![],
        save_path: node_reg_path.to_path_buf(),
    };

    // the service definition add_node writes is captured
    let installed: Arc<Mutex<Option<ServiceInstallCtx>>> = Arc::new(Mutex::new(None));
    let installed_clone = installed.clone();
    let mut mock_service_control = MockServiceControl::new();
    mock_service_control
        .expect_get_available_port()
        .times(1)
        .returning(|| Ok(8081));
    mock_service_control
        .expect_install()
        .times(1)
        .returning(move |ctx, _| {
            *installed_clone.lock().unwrap() = Some(ctx);
            Ok(())
        });

    // `antctl add --owner=-alice --rewards-address 0x03B7.. evm-arbitrum-one`
    // (clap takes a value that starts with '-' in the `--owner=<value>` form)
    add_node(
        AddNodeServiceOptions {
            auto_restart: false,
            auto_set_nat_flags: false,
            count: None,
            delete_antnode_src: true,
            enable_metrics_server: false,
            env_variables: None,
            home_network: false,
            log_format: None,
            max_archived_log_files: None,
            max_log_files: None,
            metrics_port: None,
            network_id: None,
            node_ip: None,
            node_port: None,
            owner: Some("-alice".to_string()),
            peers_args: PeersArgs::default(),
            rpc_address: None,
            rpc_port: None,
            antnode_dir_path: temp_dir.to_path_buf(),
            antnode_src_path: antnode_download_path.to_path_buf(),
            service_data_dir_path: node_data_dir.to_path_buf(),
            service_log_dir_path: node_logs_dir.to_path_buf(),
            upnp: false,
            user: Some(get_username()),
            user_mode: false,
            version: "0.3.0".to_string(),
            evm_network: EvmNetwork::ArbitrumOne,
            rewards_address: RewardsAddress::from_str(
                "0x03B770D9cD32077cC0bF330c13C114a87643B124",
            )?,
        },
        &mut node_registry,
        &mock_service_control,
        VerbosityLevel::Normal,
    )
    .await?;
    // antctl took the option: the service is installed and recorded
    assert_eq!(node_registry.nodes[0].owner, Some("-alice".to_string()));

    let install_args = installed.lock().unwrap().take().expect("installed").args;

    // what `antctl upgrade` regenerates from the registry entry
    let rpc_client = RpcClient::from_socket_addr(node_registry.nodes[0].rpc_socket_addr);
    let service = NodeService::new(&mut node_registry.nodes[0], Box::new(rpc_client));
    let upgrade_args = service
        .build_upgrade_install_context(UpgradeOptions {
            auto_restart: false,
            env_variables: None,
            force: false,
            start_service: true,
            target_bin_path: antnode_download_path.to_path_buf(),
            target_version: semver::Version::parse("0.3.1")?,
        })?
        .args;

    for (what, args) in [("installation", install_args), ("upgrade", upgrade_args)] {
        let output = run_the_real_antnode_parser(&args);
        assert!(
            output.status.success(),
            "antnode refuses the arguments written at {what}: {args:?}\n{}",
            String::from_utf8_lossy(&output.stderr)
        );
    }
    Ok(())
}
