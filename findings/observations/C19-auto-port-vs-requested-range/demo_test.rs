
// C19 (second audit), finding 2.
//
// `add --count 2 --metrics-port 40000-40001` on an empty registry. No RPC port is requested, so
// each service's RPC port is drawn from `ServiceControl::get_available_port`, which hands out any
// port that is free in the OS at that moment. Nothing is listening yet (services are only
// installed, not started), so 40001 is a legitimate answer for antnode1.
//
// The property: "a requested port that another service already records is refused".
// antnode2's requested metrics port 40001 is, by the time antnode2 is set up, recorded by antnode1
// (its RPC port) - it has to be refused, not recorded a second time.
#[tokio::test]
async fn c19_requested_port_already_recorded_by_a_service_added_in_the_same_call_is_refused(
) -> Result<()> {
    let tmp_data_dir = assert_fs::TempDir::new()?;
    let node_reg_path = tmp_data_dir.child("node_reg.json");

    let mut node_registry = NodeRegistry {
        auditor: None,
        faucet: None,
        save_path: node_reg_path.to_path_buf(),
        nat_status: None,
        nodes: vec![],
        environment_variables: None,
        daemon: None,
    };
    let temp_dir = assert_fs::TempDir::new()?;
    let node_data_dir = temp_dir.child("data");
    node_data_dir.create_dir_all()?;
    let node_logs_dir = temp_dir.child("logs");
    node_logs_dir.create_dir_all()?;
    let antnode_download_path = temp_dir.child(ANTNODE_FILE_NAME);
    antnode_download_path.write_binary(b"fake antnode bin")?;

    let mut mock_service_control = MockServiceControl::new();
    // "any free port": 40001 the first time it is asked, 40002, 40003, ... afterwards.
    let next_free_port = std::sync::atomic::AtomicU16::new(40001);
    mock_service_control
        .expect_get_available_port()
        .returning(move || Ok(next_free_port.fetch_add(1, std::sync::atomic::Ordering::SeqCst)));
    mock_service_control
        .expect_install()
        .returning(|_, _| Ok(()));

    let result = add_node(
        AddNodeServiceOptions {
            auto_restart: false,
            auto_set_nat_flags: false,
            count: Some(2),
            delete_antnode_src: false,
            enable_metrics_server: false,
            env_variables: None,
            home_network: false,
            log_format: None,
            max_archived_log_files: None,
            max_log_files: None,
            metrics_port: Some(PortRange::Range(40000, 40001)),
            network_id: None,
            node_ip: None,
            node_port: None,
            owner: None,
            peers_args: PeersArgs::default(),
            rpc_address: None,
            rpc_port: None,
            antnode_dir_path: temp_dir.to_path_buf(),
            antnode_src_path: antnode_download_path.to_path_buf(),
            service_data_dir_path: node_data_dir.to_path_buf(),
            service_log_dir_path: node_logs_dir.to_path_buf(),
            upnp: false,
            user: Some(get_username()),
            user_mode: false,
            version: "0.96.4".to_string(),
            evm_network: EvmNetwork::ArbitrumOne,
            rewards_address: RewardsAddress::from_str(
                "0x03B770D9cD32077cC0bF330c13C114a87643B124",
            )?,
        },
        &mut node_registry,
        &mock_service_control,
        VerbosityLevel::Normal,
    )
    .await;

    // What the registry file says after the call (also checks that it loads back).
    let reloaded = NodeRegistry::load(node_reg_path.path())?;
    println!("add_node returned {result:?}");
    let mut recorded: Vec<(u16, String, &str)> = Vec::new();
    for node in &reloaded.nodes {
        println!(
            "{}: rpc {} metrics {:?} node {:?}",
            node.service_name,
            node.rpc_socket_addr.port(),
            node.metrics_port,
            node.node_port
        );
        recorded.push((node.rpc_socket_addr.port(), node.service_name.clone(), "rpc"));
        if let Some(port) = node.metrics_port {
            recorded.push((port, node.service_name.clone(), "metrics"));
        }
        if let Some(port) = node.node_port {
            recorded.push((port, node.service_name.clone(), "node"));
        }
    }
    for (i, (port, name, kind)) in recorded.iter().enumerate() {
        for (other_port, other_name, other_kind) in recorded.iter().skip(i + 1) {
            assert!(
                !(port == other_port && name != other_name),
                "port {port} is recorded twice: as the {kind} port of {name} and as the \
                 {other_kind} port of {other_name}"
            );
        }
    }
    Ok(())
}
