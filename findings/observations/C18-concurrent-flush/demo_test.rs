// C18 demo 1: two flushers of one cache file lose each other's peers (no lock around
// load -> merge -> write in BootstrapCacheStore::sync_and_flush_to_disk).
//
// The interleaving is forced deterministically, without touching non-test code: flusher A runs
// under a thread-local tracing subscriber that blocks on the `debug!("Writing cache to disk ..")`
// event emitted at the top of `BootstrapCacheStore::write()`, i.e. after A has loaded and merged
// the on-disk cache but before it replaces the file. While A is parked there, flusher B performs a
// complete sync_and_flush_to_disk. Then A is released.
//
// Install: copy to ant-bootstrap/tests/c18_demo1.rs
// Run:     cargo test -p ant-bootstrap --offline --test c18_demo1

use ant_bootstrap::{BootstrapCacheConfig, BootstrapCacheStore};
use libp2p::{Multiaddr, PeerId};
use std::collections::BTreeSet;
use std::sync::{Arc, Condvar, Mutex};
use tempfile::TempDir;
use tracing::{
    field::{Field, Visit},
    span, Event, Metadata, Subscriber,
};

#[derive(Default)]
struct Flag(Mutex<bool>, Condvar);
impl Flag {
    fn set(&self) {
        *self.0.lock().unwrap() = true;
        self.1.notify_all();
    }
    fn wait(&self) {
        let mut g = self.0.lock().unwrap();
        while !*g {
            g = self.1.wait(g).unwrap();
        }
    }
}

struct Msg(String);
impl Visit for Msg {
    fn record_debug(&mut self, field: &Field, value: &dyn std::fmt::Debug) {
        if field.name() == "message" {
            self.0 = format!("{value:?}");
        }
    }
}

/// Parks the calling thread when it is about to replace the cache file.
struct Gate {
    reached_write: Arc<Flag>,
    release: Arc<Flag>,
}
impl Subscriber for Gate {
    fn enabled(&self, _: &Metadata<'_>) -> bool {
        true
    }
    fn new_span(&self, _: &span::Attributes<'_>) -> span::Id {
        span::Id::from_u64(1)
    }
    fn record(&self, _: &span::Id, _: &span::Record<'_>) {}
    fn record_follows_from(&self, _: &span::Id, _: &span::Id) {}
    fn enter(&self, _: &span::Id) {}
    fn exit(&self, _: &span::Id) {}
    fn event(&self, event: &Event<'_>) {
        let mut m = Msg(String::new());
        event.record(&mut m);
        if m.0.starts_with("Writing cache to disk") {
            self.reached_write.set();
            self.release.wait();
        }
    }
}

fn addr(ip: &str, peer: &PeerId) -> Multiaddr {
    format!("/ip4/{ip}/udp/4000/quic-v1/p2p/{peer}")
        .parse()
        .unwrap()
}

fn addrs_on_disk(cfg: &BootstrapCacheConfig) -> BTreeSet<String> {
    BootstrapCacheStore::load_cache_data(cfg)
        .expect("cache file must load")
        .peers
        .values()
        .flat_map(|a| a.0.iter().map(|a| a.addr.to_string()))
        .collect()
}

#[test]
fn concurrent_flushers_must_not_lose_each_others_peers() {
    let tmp = TempDir::new().unwrap();
    // default limits: 1500 peers, 6 addrs per peer, 24h expiry -> clean-up removes nothing here.
    let cfg = BootstrapCacheConfig::empty().with_cache_path(tmp.path().join("cache.json"));

    let (pa, pb, pc) = (PeerId::random(), PeerId::random(), PeerId::random());
    let (a, b, c) = (
        addr("10.0.0.1", &pa),
        addr("10.0.0.2", &pb),
        addr("10.0.0.3", &pc),
    );

    // The shared file already knows peer C.
    let mut seed = BootstrapCacheStore::new(cfg.clone()).unwrap();
    seed.add_addr(c.clone());
    seed.sync_and_flush_to_disk(true).unwrap();
    assert_eq!(addrs_on_disk(&cfg), BTreeSet::from([c.to_string()]));

    // Process A knows peer A, process B knows peer B. Both share the cache file.
    let mut store_a = BootstrapCacheStore::new(cfg.clone()).unwrap();
    store_a.add_addr(a.clone());
    let mut store_b = BootstrapCacheStore::new(cfg.clone()).unwrap();
    store_b.add_addr(b.clone());

    let reached_write = Arc::new(Flag::default());
    let release = Arc::new(Flag::default());
    let gate = Gate {
        reached_write: reached_write.clone(),
        release: release.clone(),
    };

    // A: load + merge, then parked just before replacing the file.
    let flusher_a = std::thread::spawn(move || {
        tracing::subscriber::with_default(gate, || store_a.sync_and_flush_to_disk(true))
    });
    reached_write.wait();

    // B: complete flush while A is between its merge and its write.
    store_b.sync_and_flush_to_disk(true).unwrap();
    let after_b = addrs_on_disk(&cfg);
    assert!(after_b.contains(&b.to_string()) && after_b.contains(&c.to_string()));

    // A resumes and replaces the file.
    release.set();
    flusher_a.join().unwrap().unwrap();

    // Every flush "syncs with the on-disk cache"; nothing here is expired, unreliable or over a
    // limit, so all three peers must survive.
    let on_disk = addrs_on_disk(&cfg);
    for (name, x) in [("A", &a), ("B", &b), ("C", &c)] {
        assert!(
            on_disk.contains(&x.to_string()),
            "peer {name} ({x}) was known to the on-disk cache / a flusher but is gone after both \
             flushes completed; file now holds only {on_disk:?}"
        );
    }
}
