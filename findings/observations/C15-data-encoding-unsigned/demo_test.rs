// Appended inside `#[cfg(test)] mod tests { use super::*; ... }` at the end of ant-protocol/src/storage/scratchpad.rs
// (after test_scratchpad_is_valid). No production code is changed.

    /// C15 demonstration (finding 2).
    ///
    /// The owner writes a vault with content type 42. A holder serves the owner's record with the
    /// content-type field rewritten (done here on the wire format of the record, i.e. with nothing
    /// but what a storage node has). `autonomi::Client::fetch_and_decrypt_vault` accepts a pad when
    /// `address == requested && is_valid()` and then returns `(decrypted bytes, pad.data_encoding())`.
    /// So everything it returns has to be covered by `is_valid()`.
    #[test]
    fn c15_rewritten_content_type_is_not_validly_signed() {
        use crate::storage::{try_deserialize_record, try_serialize_record, RecordKind};
        use libp2p::kad::Record;

        let sk = SecretKey::random();
        let mut authentic = Scratchpad::new(sk.public_key(), 42);
        authentic.update_and_sign(Bytes::from_static(b"vault content of app 42"), &sk);
        let requested = ScratchpadAddress::new(sk.public_key());

        // the record as stored on a node
        let stored = try_serialize_record(&authentic, RecordKind::Scratchpad).expect("serialise");

        // the holder rewrites the content type: decode the record payload field by field, change the
        // second field, encode again (no key material involved)
        type Wire = (ScratchpadAddress, u64, Bytes, u64, Option<Signature>);
        let as_record = |value: Vec<u8>| Record {
            key: NetworkAddress::from_scratchpad_address(requested).to_record_key(),
            value,
            publisher: None,
            expires: None,
        };
        let (addr, encoding, data, counter, sig): Wire =
            try_deserialize_record(&as_record(stored.to_vec())).expect("decode fields");
        assert_eq!(encoding, 42);
        let forged_fields: Wire = (addr, 7, data, counter, sig);
        let served = try_serialize_record(&forged_fields, RecordKind::Scratchpad).expect("encode");

        // what the client does with the served record
        let received: Scratchpad =
            try_deserialize_record(&as_record(served.to_vec())).expect("a scratchpad");
        assert_eq!(*received.address(), requested);
        assert_eq!(received.count(), authentic.count());
        assert_eq!(received.decrypt_data(&sk).expect("decrypts"), "vault content of app 42");
        assert_eq!(received.data_encoding(), 7, "the holder's value, never signed by the owner");

        assert!(
            !received.is_valid(),
            "a scratchpad whose content type was rewritten by the holder (42 -> {}) still passes \
             is_valid(): the client would return it as the authentic vault with content type {}",
            received.data_encoding(),
            received.data_encoding()
        );
    }
