// added to the existing `#[cfg(test)] mod tests` of ant-node/src/node.rs (before `fn test_no_local_peers`).
// `c07_build_node` is the same helper as in finding 1 (builds a real node on a temp dir, no peers).
    fn c07_build_node(root: &std::path::Path) -> Node {
        let mut builder = NetworkBuilder::new(Keypair::generate_ed25519(), true);
        builder.listen_addr("127.0.0.1:0".parse().expect("addr"));
        let (network, mut events, driver) =
            builder.build_node(root.to_path_buf()).expect("build_node");
        let _handle = spawn(driver.run());
        let _handle = spawn(async move { while events.recv().await.is_some() {} });
        Node {
            inner: Arc::new(NodeInner {
                events_channel: NodeEventsChannel::default(),
                initial_peers: vec![],
                network,
                #[cfg(feature = "open-metrics")]
                metrics_recorder: None,
                reward_address: RewardsAddress::default(),
                evm_network: EvmNetwork::default(),
            }),
        }
    }

    // ---- C07 hunt 3, finding 2 -------------------------------------------------------------
    // A register whose owner-signed base says "anyone can write", carrying one entry whose
    // signature does not verify against the key the entry names as its source.
    #[tokio::test]
    async fn c07_register_entry_with_invalid_signature_is_stored_when_anyone_can_write() {
        use ant_protocol::storage::{try_deserialize_record, try_serialize_record, RecordKind};
        use ant_registers::{
            Permissions, Register, RegisterAddress, RegisterCrdt, RegisterOp, SignedRegister,
        };
        use libp2p::kad::Record;
        use std::collections::BTreeSet;

        let owner_sk = bls::SecretKey::random();
        let victim_sk = bls::SecretKey::random();
        let meta = xor_name::XorName::from_content(b"c07 public register");
        let address = RegisterAddress::new(meta, owner_sk.public_key());

        // two genuine entries of `victim`, then entry "b" with the signature of entry "a":
        // an entry that names `victim` as its source without a signature of `victim` over it
        let mut crdt = RegisterCrdt::new(address);
        let (_, _, crdt_op_a) = crdt.write(b"a".to_vec(), &BTreeSet::new()).expect("write");
        let (_, _, crdt_op_b) = crdt.write(b"b".to_vec(), &BTreeSet::new()).expect("write");
        let op_a = RegisterOp::new(address, crdt_op_a, &victim_sk);
        let op_b = RegisterOp::new(address, crdt_op_b, &victim_sk);
        let a_json = serde_json::to_value(&op_a).expect("json");
        let mut forged_json = serde_json::to_value(&op_b).expect("json");
        forged_json["signature"] = a_json["signature"].clone();
        let forged: RegisterOp = serde_json::from_value(forged_json).expect("forged op parses");
        assert_eq!(forged.source(), victim_sk.public_key());
        assert!(op_b.verify_signature(&op_b.source()).is_ok());
        assert!(
            forged.verify_signature(&forged.source()).is_err(),
            "the forged entry's signature is invalid"
        );

        let signed = |permissions: Permissions| {
            let base = Register::new(owner_sk.public_key(), meta, permissions);
            let signature = owner_sk.sign(base.bytes().expect("bytes"));
            SignedRegister::new(base, signature, BTreeSet::from([forged.clone()]))
        };
        let as_record = |reg: &SignedRegister| Record {
            key: NetworkAddress::from_register_address(*reg.address()).to_record_key(),
            value: try_serialize_record(reg, RecordKind::Register)
                .expect("serialize")
                .to_vec(),
            publisher: None,
            expires: None,
        };

        // control: with a writers list that names `victim`, the node refuses the forged entry
        let dir = tempfile::tempdir().expect("tempdir");
        let node = c07_build_node(dir.path());
        let restricted = signed(Permissions::new_with([victim_sk.public_key()]));
        let res = node.store_replicated_in_record(as_record(&restricted)).await;
        assert!(res.is_err(), "restricted register: forged entry must be refused, got {res:?}");

        // the same entry in an anyone-can-write register
        let dir2 = tempfile::tempdir().expect("tempdir");
        let node2 = c07_build_node(dir2.path());
        let public = signed(Permissions::new_anyone_can_write());
        let record = as_record(&public);
        let key = record.key.clone();
        let res = node2.store_replicated_in_record(record).await;

        tokio::time::sleep(Duration::from_millis(1000)).await;
        let stored = node2
            .network()
            .get_local_record(&key)
            .await
            .expect("get_local_record");
        let stored_invalid_entries = match stored {
            None => 0,
            Some(r) => {
                let reg: SignedRegister = try_deserialize_record(&r).expect("register");
                reg.ops()
                    .iter()
                    .filter(|op| op.verify_signature(&op.source()).is_err())
                    .count()
            }
        };
        assert_eq!(
            stored_invalid_entries, 0,
            "delivery outcome {res:?}; the node holds a register with {stored_invalid_entries} entry(ies) whose signature is invalid"
        );
    }
