// C13 finding 1: a quote that carries a small-order ("weak") Ed25519 public key verifies
// with one fixed signature for EVERY content / timestamp / metrics / rewards address,
// so none of the "signed" fields is bound by the signature.

use ant_evm::{EncodedPeerId, PaymentQuote, ProofOfPayment, QuotingMetrics, RewardsAddress};
use libp2p::identity::{ed25519, PublicKey};
use libp2p::PeerId;
use std::time::{Duration, SystemTime};
use xor_name::XorName;

/// Compressed encoding of the Ed25519 neutral element (x = 0, y = 1).
fn identity_point() -> [u8; 32] {
    let mut b = [0u8; 32];
    b[0] = 1;
    b
}

/// The quote an honest verifier is shown: weak key + the "universal" signature (R = neutral, s = 0).
fn weak_key_quote() -> (PeerId, PaymentQuote) {
    let weak_pk: PublicKey = ed25519::PublicKey::try_from_bytes(&identity_point())
        .expect("libp2p accepts the neutral element as an Ed25519 public key")
        .into();
    let peer_id = PeerId::from(weak_pk.clone());

    let mut signature = Vec::with_capacity(64);
    signature.extend_from_slice(&identity_point()); // R = neutral element
    signature.extend_from_slice(&[0u8; 32]); // s = 0

    let quote = PaymentQuote {
        content: XorName([1u8; 32]),
        timestamp: SystemTime::UNIX_EPOCH + Duration::from_secs(1_700_000_000),
        quoting_metrics: QuotingMetrics::default(),
        rewards_address: RewardsAddress::from([0x11u8; 20]),
        pub_key: weak_pk.encode_protobuf(),
        signature,
    };
    (peer_id, quote)
}

#[test]
fn c13_altering_a_signed_field_must_make_verification_fail() {
    let (peer_id, quote) = weak_key_quote();

    // Precondition of the property's clause: the quote verifies for its claimed node.
    assert!(quote.check_is_signed_by_claimed_peer(peer_id));

    // "altering any one of these ... makes verification fail": mutate each signed field in turn.
    let mut other_content = quote.clone();
    other_content.content = XorName([2u8; 32]);

    let mut other_time = quote.clone();
    other_time.timestamp += Duration::from_secs(86_400); // whole seconds, so the signed bytes change

    let mut other_metrics = quote.clone();
    other_metrics.quoting_metrics.close_records_stored = 12_345;
    other_metrics.quoting_metrics.received_payment_count = 99;
    other_metrics.quoting_metrics.live_time = 1_000_000;

    let mut other_rewards = quote.clone();
    other_rewards.rewards_address = RewardsAddress::from([0x22u8; 20]);

    let mut still_verifying = vec![];
    for (what, mutated) in [
        ("content", &other_content),
        ("timestamp", &other_time),
        ("quoting_metrics", &other_metrics),
        ("rewards_address", &other_rewards),
    ] {
        // the signed bytes really are different ...
        assert_ne!(mutated.bytes_for_sig(), quote.bytes_for_sig(), "{what}");
        // ... so the untouched signature must no longer verify.
        if mutated.check_is_signed_by_claimed_peer(peer_id) {
            still_verifying.push(what);
        }
    }
    assert!(
        still_verifying.is_empty(),
        "quote still verifies for {peer_id:?} after altering its: {still_verifying:?}"
    );
}

#[test]
fn c13_proof_with_altered_quote_must_not_verify() {
    let (peer_id, quote) = weak_key_quote();

    // Redirect the rewards and change the content of the quote; keep the signature.
    let mut altered = quote.clone();
    altered.content = XorName([9u8; 32]);
    altered.rewards_address = RewardsAddress::from([0x99u8; 20]);

    let proof = ProofOfPayment {
        peer_quotes: vec![(EncodedPeerId::from(peer_id), altered)],
    };
    // "every quote in it verifies for its claimed payee" must be false for the altered quote.
    assert!(
        !proof.verify_for(peer_id),
        "proof of payment verifies although its only quote was altered after signing"
    );
}
