    // ---- C07 (second audit), finding 2: a scratchpad, the transaction set of the same owner and the
    // ---- chunk whose content is the owner's public key all live at ONE record key; the kind that
    // ---- arrives first keeps the key and every valid delivery of another kind is refused.
    // ---- Appended inside `mod tests` of ant-node/src/node.rs after the block of finding 1 (it uses
    // ---- c07_build_node, c07_pad_record, c07_tx_record and c07_wait_indexed from that block).
    use ant_protocol::storage::{Chunk, RecordHeader};

    /// FAILS: the owner has a scratchpad; a validly signed transaction of the same owner is delivered
    /// at the transaction's own key; it must be in the record stored at that key.
    #[tokio::test(flavor = "multi_thread", worker_threads = 1)]
    async fn c07_transaction_of_an_owner_with_a_scratchpad_must_be_stored() {
        let dir = tempfile::tempdir().unwrap();
        let (node, mut events_rx) = c07_build_node(dir.path().to_path_buf());
        let _drain = spawn(async move { while events_rx.recv().await.is_some() {} });
        tokio::time::sleep(Duration::from_secs(1)).await;

        let sk = bls::SecretKey::random();
        let pk = sk.public_key();
        let mut pad = Scratchpad::new(pk, 0);
        let _ = pad.update_and_sign(Bytes::from_static(b"one"), &sk);
        let t1 = Transaction::new(pk, vec![], [1u8; 32], vec![], &sk);
        assert!(pad.is_valid() && t1.verify());
        let pad_rec = c07_pad_record(&pad);
        let tx_rec = c07_tx_record(&vec![t1.clone()]);
        let tx_key = tx_rec.key.clone();
        println!("same record key for both kinds: {}", pad_rec.key == tx_key);

        node.store_replicated_in_record(pad_rec).await.unwrap();
        c07_wait_indexed(&node, &tx_key).await;
        tokio::time::sleep(Duration::from_millis(500)).await;

        let res = node.store_replicated_in_record(tx_rec).await;
        tokio::time::sleep(Duration::from_secs(1)).await;

        let local = node
            .network()
            .get_local_record(&tx_key)
            .await
            .unwrap()
            .unwrap();
        let kind = RecordHeader::from_record(&local).unwrap().kind;
        let stored: Vec<Transaction> = if matches!(kind, RecordKind::Transaction) {
            try_deserialize_record(&local).unwrap()
        } else {
            vec![]
        };
        assert!(
            stored.contains(&t1),
            "delivery of the transaction returned {res:?}; the record at its key is a {kind:?}"
        );
    }

    /// FAILS: anybody can upload the 48 bytes of somebody's public key as a chunk; after that the
    /// owner's validly signed scratchpad is refused.
    #[tokio::test(flavor = "multi_thread", worker_threads = 1)]
    async fn c07_scratchpad_after_a_chunk_of_the_public_key_must_be_stored() {
        let dir = tempfile::tempdir().unwrap();
        let (node, mut events_rx) = c07_build_node(dir.path().to_path_buf());
        let _drain = spawn(async move { while events_rx.recv().await.is_some() {} });
        tokio::time::sleep(Duration::from_secs(1)).await;

        let sk = bls::SecretKey::random();
        let pk = sk.public_key();
        let mut pad = Scratchpad::new(pk, 0);
        let _ = pad.update_and_sign(Bytes::from_static(b"one"), &sk);
        let pad_rec = c07_pad_record(&pad);
        let key = pad_rec.key.clone();

        // made by anyone: no secret is needed
        let chunk = Chunk::new(Bytes::from(pk.to_bytes().to_vec()));
        let chunk_rec = Record {
            key: NetworkAddress::from_chunk_address(*chunk.address()).to_record_key(),
            value: try_serialize_record(&chunk, RecordKind::Chunk)
                .unwrap()
                .to_vec(),
            publisher: None,
            expires: None,
        };
        println!("chunk key == scratchpad key: {}", chunk_rec.key == key);

        node.store_replicated_in_record(chunk_rec).await.unwrap();
        c07_wait_indexed(&node, &key).await;
        tokio::time::sleep(Duration::from_millis(500)).await;

        let res = node.store_replicated_in_record(pad_rec).await;
        tokio::time::sleep(Duration::from_secs(1)).await;

        let local = node
            .network()
            .get_local_record(&key)
            .await
            .unwrap()
            .unwrap();
        let kind = RecordHeader::from_record(&local).unwrap().kind;
        assert!(
            matches!(kind, RecordKind::Scratchpad),
            "delivery of the scratchpad returned {res:?}; the record at its key is a {kind:?}"
        );
    }
    // ---- end of C07 finding 2 ----

