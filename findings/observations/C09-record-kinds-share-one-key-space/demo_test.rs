
// ---------------------------------------------------------------------------------------------
// C09 (second audit), finding 2 -- appended at the end of ant-node/src/node.rs
//
// Same harness as finding 1: two real nodes (real SwarmDriver + NodeRecordStore, listening on
// 127.0.0.1, no peers); the test is the transport of the replication exchange: the record the holder
// answers `Query::GetReplicatedRecord` with (`get_local_record`) is handed to the fetching node's
// `store_replicated_in_record`, as `fetch_replication_keys_without_wait` does with the response.
// ---------------------------------------------------------------------------------------------
#[cfg(test)]
mod c09_h2_record_kinds_share_keys {
    use super::*;
    use ant_protocol::storage::{Chunk, Scratchpad};
    use bls::SecretKey;
    use libp2p::kad::{Record, RecordKey};

    fn start_node(root_dir: PathBuf) -> Node {
        let mut network_builder = NetworkBuilder::new(Keypair::generate_ed25519(), true);
        network_builder.listen_addr("127.0.0.1:0".parse().expect("socket addr"));
        let (network, mut network_event_receiver, swarm_driver) = network_builder
            .build_node(root_dir)
            .expect("node network can be built");
        let node = Node {
            inner: Arc::new(NodeInner {
                network,
                events_channel: NodeEventsChannel::default(),
                initial_peers: vec![],
                reward_address: RewardsAddress::default(),
                #[cfg(feature = "open-metrics")]
                metrics_recorder: None,
                evm_network: EvmNetwork::default(),
            }),
        };
        let _handle = spawn(swarm_driver.run());
        // nothing is connected to the node: network events are only drained
        let _handle = spawn(async move { while network_event_receiver.recv().await.is_some() {} });
        node
    }

    async fn held_bytes(node: &Node, key: &RecordKey) -> Option<Vec<u8>> {
        // wait for disk writes of earlier puts to be acknowledged, then read what the node answers
        // a GetReplicatedRecord query with
        for _ in 0..50 {
            if node
                .network()
                .is_record_key_present_locally(key)
                .await
                .expect("swarm driver is running")
            {
                break;
            }
            tokio::time::sleep(Duration::from_millis(100)).await;
        }
        tokio::time::sleep(Duration::from_millis(300)).await;
        node.network()
            .get_local_record(key)
            .await
            .expect("swarm driver is running")
            .map(|record| record.value)
    }

    /// Node A was paid to store a chunk, node B was paid to store a scratchpad; the chunk's content
    /// is the 48 bytes of the scratchpad owner's public key, so both records live under ONE key.
    async fn two_nodes_one_key() -> (Node, Node, RecordKey, Vec<tempfile::TempDir>) {
        let dir_a = tempfile::tempdir().expect("temp dir");
        let dir_b = tempfile::tempdir().expect("temp dir");
        let node_a = start_node(dir_a.path().to_path_buf());
        let node_b = start_node(dir_b.path().to_path_buf());

        let owner = SecretKey::random();
        let mut scratchpad = Scratchpad::new(owner.public_key(), 0);
        let _count = scratchpad.update_and_sign(Bytes::from_static(b"vault content"), &owner);
        assert!(scratchpad.is_valid());
        let chunk = Chunk::new(Bytes::copy_from_slice(&owner.public_key().to_bytes()));

        let key = chunk.network_address().to_record_key();
        assert_eq!(
            key,
            scratchpad.network_address().to_record_key(),
            "a chunk and a scratchpad under the same record key"
        );

        // Accepted uploads: what `validate_and_store_record` does for ChunkWithPayment and
        // ScratchpadWithPayment once the payment has been verified (needs an EVM network, left out).
        node_a.store_chunk(&chunk).expect("node A accepts the chunk");
        node_b
            .validate_and_store_scratchpad_record(scratchpad, key.clone(), true)
            .await
            .expect("node B accepts the scratchpad");
        assert!(held_bytes(&node_a, &key).await.is_some());
        assert!(held_bytes(&node_b, &key).await.is_some());

        (node_a, node_b, key, vec![dir_a, dir_b])
    }

    #[tokio::test]
    async fn c09_h2_replicated_chunk_is_acknowledged_but_not_held() {
        let (node_a, node_b, key, _dirs) = two_nodes_one_key().await;

        // B fetches the chunk A holds and advertises
        let chunk_on_a = held_bytes(&node_a, &key).await.expect("A holds the chunk");
        let res = node_b
            .store_replicated_in_record(Record::new(key.clone(), chunk_on_a.clone()))
            .await;
        println!("B fetched A's chunk -> {res:?}");
        assert!(res.is_ok(), "B accepts the chunk fetched through replication");

        let on_b = held_bytes(&node_b, &key).await.expect("B holds a record");
        println!(
            "A holds {} bytes (record kind byte {}), B holds {} bytes (record kind byte {})",
            chunk_on_a.len(),
            chunk_on_a[1],
            on_b.len(),
            on_b[1]
        );
        assert!(
            on_b == chunk_on_a,
            "B reported the replicated chunk as stored, but what it holds under the chunk's key is not the chunk"
        );
    }

    #[tokio::test]
    async fn c09_h2_replicated_scratchpad_is_refused_by_the_chunk_holder() {
        let (node_a, node_b, key, _dirs) = two_nodes_one_key().await;

        // A fetches the scratchpad B holds and advertises
        let pad_on_b = held_bytes(&node_b, &key).await.expect("B holds the scratchpad");
        let res = node_a
            .store_replicated_in_record(Record::new(key.clone(), pad_on_b.clone()))
            .await;
        println!("A fetched B's scratchpad -> {res:?}");
        let on_a = held_bytes(&node_a, &key).await.expect("A holds a record");
        assert!(
            res.is_ok() && on_a == pad_on_b,
            "the scratchpad B accepted and stored is not accepted by its neighbour A: {res:?}"
        );
    }
}
