// C16 demonstration: the cost lines the `ant` CLI prints for vault operations give the amount in
// whole tokens (AttoTokens' Display) but label it "AttoTokens"; the upload line in file.rs gives
// the raw atto count under the same label. The printed string is therefore not the amount's true
// value: it is off by a factor of 10^18.
//
// `ant-cli/src/commands/vault.rs::{cost, create}` connect to the network before printing, so the
// two format strings are copied verbatim from the production code:
//   vault.rs:25  println!("Cost to create a new vault: {total_cost} AttoTokens");
//   vault.rs:51  println!("Total cost: {total_cost} AttoTokens");
//   file.rs:86   println!("Total cost: {} AttoTokens", summary.tokens_spent);   (Amount, raw atto)

use ant_evm::{Amount, AttoTokens};
use std::str::FromStr;

/// What a reader of "<prefix>: <number> <unit>" is told the amount is, in atto.
fn denoted_atto(line: &str) -> Option<Amount> {
    let (_, rest) = line.split_once(": ")?;
    let (number, unit) = rest.split_once(' ')?;
    match unit {
        // a count of atto tokens: an integer
        "AttoTokens" => {
            if number.bytes().all(|b| b.is_ascii_digit()) {
                Amount::from_str(number).ok()
            } else {
                // a fractional count of the smallest unit; certainly not `number` whole tokens
                None
            }
        }
        _ => None,
    }
}

#[test]
fn c16_vault_cost_line_states_the_true_amount() {
    // a vault costing 1234 atto (what vault_cost / put_user_data_to_vault return)
    let atto = Amount::from(1234u64);
    let total_cost: AttoTokens = AttoTokens::from_atto(atto);

    // file.rs:86 (upload summary, raw Amount): consistent with its label
    let upload_line = format!("Total cost: {} AttoTokens", atto);
    assert_eq!(denoted_atto(&upload_line), Some(atto), "{upload_line}");

    // vault.rs:51 and vault.rs:25 (AttoTokens Display = whole tokens, 18 fractional digits)
    let create_line = format!("Total cost: {total_cost} AttoTokens");
    let cost_line = format!("Cost to create a new vault: {total_cost} AttoTokens");
    println!("{upload_line}\n{create_line}\n{cost_line}");
    assert_eq!(
        denoted_atto(&create_line),
        Some(atto),
        "vault create prints `{create_line}` for a cost of {atto} atto"
    );
    assert_eq!(
        denoted_atto(&cost_line),
        Some(atto),
        "vault cost prints `{cost_line}` for a cost of {atto} atto"
    );
}

#[test]
fn c16_vault_cost_line_whole_token() {
    // a cost of exactly one token = 10^18 atto is printed as "1.000000000000000000 AttoTokens"
    let atto = Amount::from(1_000_000_000_000_000_000u64);
    let total_cost = AttoTokens::from_atto(atto);
    let create_line = format!("Total cost: {total_cost} AttoTokens");
    assert_eq!(
        create_line,
        format!("Total cost: {atto} AttoTokens"),
        "same amount, same label as the upload summary line, different number"
    );
}
