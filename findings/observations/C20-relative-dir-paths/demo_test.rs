
// ---- C20 hunt 3, finding 2: appended to ant-node-manager/src/add_services/tests.rs ----
// `antctl add --data-dir-path c20_rel/data --log-dir-path c20_rel/logs ...` (relative paths).
// Real code used: config::get_service_data_dir_path / get_service_log_dir_path (what cmd::node::add
// calls; cmd::node::add itself cannot be called in a test: it creates users, downloads the release and
// installs real services), add_node, and the real antnode binary built from the same source
// (`cargo build -p ant-node --bin antnode --offline` first; it is looked up next to the test binary).
// A service manager does not start a service in the directory antctl was run from (the definition has
// working_directory: None; systemd uses `/`), so the node is started from another directory here.
#[tokio::test]
async fn the_node_uses_the_directories_antctl_prepared_when_they_were_given_as_relative_paths(
) -> Result<()> {
    use ant_releases::ReleaseType;
    use std::sync::{Arc, Mutex};

    let antnode_bin = std::env::current_exe()?
        .parent()
        .and_then(|deps| deps.parent())
        .expect("target/debug")
        .join(ANTNODE_FILE_NAME);
    assert!(
        antnode_bin.exists(),
        "{antnode_bin:?} is missing: run `cargo build -p ant-node --bin antnode --offline` first"
    );

    let antctl_cwd = std::env::current_dir()?;
    let _ = std::fs::remove_dir_all(antctl_cwd.join("c20_rel"));

    // the paths as cmd::node::add computes them from --data-dir-path / --log-dir-path
    let service_data_dir_path = crate::config::get_service_data_dir_path(
        Some(PathBuf::from("c20_rel/data")),
        Some(get_username()),
    )?;
    let service_log_dir_path = crate::config::get_service_log_dir_path(
        ReleaseType::AntNode,
        Some(PathBuf::from("c20_rel/logs")),
        Some(get_username()),
    )?;

    let tmp = assert_fs::TempDir::new()?;
    let antnode_download_path = tmp.child(ANTNODE_FILE_NAME);
    antnode_download_path.write_binary(b"fake antnode bin")?;
    let mut node_registry = NodeRegistry {
        auditor: None,
        daemon: None,
        environment_variables: None,
        faucet: None,
        nat_status: None,
        nodes: vec![],
        save_path: tmp.child("node_reg.json").to_path_buf(),
    };

    let installed: Arc<Mutex<Option<ServiceInstallCtx>>> = Arc::new(Mutex::new(None));
    let installed_clone = installed.clone();
    let mut mock_service_control = MockServiceControl::new();
    mock_service_control
        .expect_get_available_port()
        .times(1)
        .returning(|| Ok(18081));
    mock_service_control
        .expect_install()
        .times(1)
        .returning(move |ctx, _| {
            *installed_clone.lock().unwrap() = Some(ctx);
            Ok(())
        });

    add_node(
        AddNodeServiceOptions {
            auto_restart: false,
            auto_set_nat_flags: false,
            count: None,
            delete_antnode_src: true,
            enable_metrics_server: false,
            env_variables: None,
            home_network: false,
            log_format: None,
            max_archived_log_files: None,
            max_log_files: None,
            metrics_port: None,
            network_id: None,
            node_ip: None,
            node_port: None,
            owner: None,
            // a genesis node of a local network: it starts without contacting anything
            peers_args: PeersArgs {
                first: true,
                local: true,
                ..Default::default()
            },
            rpc_address: None,
            rpc_port: None,
            antnode_dir_path: service_data_dir_path.clone(),
            antnode_src_path: antnode_download_path.to_path_buf(),
            service_data_dir_path,
            service_log_dir_path,
            upnp: false,
            user: Some(get_username()),
            user_mode: false,
            version: "0.3.0".to_string(),
            evm_network: EvmNetwork::ArbitrumOne,
            rewards_address: RewardsAddress::from_str(
                "0x03B770D9cD32077cC0bF330c13C114a87643B124",
            )?,
        },
        &mut node_registry,
        &mock_service_control,
        VerbosityLevel::Normal,
    )
    .await?;

    let ctx = installed.lock().unwrap().take().expect("installed");
    // the directories antctl created, recorded and reported for this service
    let prepared_data_dir = antctl_cwd.join(&node_registry.nodes[0].data_dir_path);
    let prepared_log_dir = antctl_cwd.join(&node_registry.nodes[0].log_dir_path);
    assert!(prepared_data_dir.is_dir() && prepared_log_dir.is_dir());

    // the service manager launches `program args..` from its own working directory
    let service_cwd = assert_fs::TempDir::new()?;
    let mut node = std::process::Command::new(&antnode_bin)
        .args(&ctx.args)
        .current_dir(service_cwd.path())
        .env("HOME", service_cwd.path())
        .stdout(std::process::Stdio::null())
        .stderr(std::process::Stdio::null())
        .spawn()?;
    // the node creates <root-dir>/secret-key right after parsing its arguments
    let key_in_prepared_dir = prepared_data_dir.join("secret-key");
    let key_elsewhere = service_cwd
        .path()
        .join(&node_registry.nodes[0].data_dir_path)
        .join("secret-key");
    for _ in 0..300 {
        if key_in_prepared_dir.exists() || key_elsewhere.exists() || node.try_wait()?.is_some() {
            break;
        }
        std::thread::sleep(std::time::Duration::from_millis(100));
    }
    // give the node a moment to set up its log directory too, then stop it
    std::thread::sleep(std::time::Duration::from_millis(1500));
    let _ = node.kill();
    let _ = node.wait();
    let node_used_prepared_dir = key_in_prepared_dir.exists();
    let node_used_other_dir = key_elsewhere.exists();
    let logs_elsewhere = service_cwd
        .path()
        .join(&node_registry.nodes[0].log_dir_path)
        .exists();
    let _ = std::fs::remove_dir_all(antctl_cwd.join("c20_rel"));

    assert!(
        node_used_prepared_dir,
        "antctl prepared {prepared_data_dir:?} and {prepared_log_dir:?}, but the definition it wrote \
         (program {:?}, args {:?}) made the node use {:?} (secret-key there: {node_used_other_dir}, \
         logs there: {logs_elsewhere})",
        ctx.program,
        ctx.args,
        service_cwd.path().join(&node_registry.nodes[0].data_dir_path),
    );
    Ok(())
}
