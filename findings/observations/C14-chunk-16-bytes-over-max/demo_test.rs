
#[cfg(test)]
mod c14_chunk_size_bound {
    use super::*;

    // Deterministic incompressible bytes (xorshift64).
    fn incompressible(len: usize) -> Bytes {
        let mut s: u64 = 0x9E37_79B9_7F4A_7C15;
        let mut v = Vec::with_capacity(len + 8);
        while v.len() < len {
            s ^= s << 13;
            s ^= s >> 7;
            s ^= s << 17;
            v.extend_from_slice(&s.to_le_bytes());
        }
        v.truncate(len);
        Bytes::from(v)
    }

    /// C14: "Every produced chunk is no larger than the maximum chunk size".
    #[test]
    fn every_produced_chunk_is_within_max_chunk_size() {
        let max = *MAX_CHUNK_SIZE;
        let mut violations = vec![];
        // lengths around the 3-chunk / n-chunk size-class boundary
        for len in [3 * max - 1, 3 * max, 3 * max + 1] {
            let (data_map_chunk, chunks) = encrypt(incompressible(len)).expect("large enough");

            // every chunk is content addressed (this part of the property holds)
            for c in chunks.iter().chain(std::iter::once(&data_map_chunk)) {
                assert_eq!(*c.name(), xor_name::XorName::from_content(c.value()));
            }

            // sizes of the pieces before compression/encryption, from the data map
            let level: DataMapLevel = rmp_serde::from_slice(data_map_chunk.value()).unwrap();
            let (DataMapLevel::First(map) | DataMapLevel::Additional(map)) = level;
            let largest_src = map.infos().iter().map(|i| i.src_size).max().unwrap();

            for c in chunks.iter().chain(std::iter::once(&data_map_chunk)) {
                if c.value().len() > max {
                    violations.push(format!(
                        "input len {len}: chunk {:?} holds {} bytes > MAX_CHUNK_SIZE {max} (largest piece before encryption: {largest_src} bytes)",
                        c.name(),
                        c.value().len()
                    ));
                }
            }
        }
        assert!(
            violations.is_empty(),
            "{} produced chunks exceed the maximum chunk size:\n{}",
            violations.len(),
            violations.join("\n")
        );
    }
}
