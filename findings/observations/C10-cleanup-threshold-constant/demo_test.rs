    // C10 demo 2: clean-up applies only once the store is large enough, i.e. (doc comment of
    // `cleanup_irrelevant_records`) once it holds a tenth of its configured `max_records`.
    #[tokio::test]
    async fn c10_cleanup_threshold_follows_configured_capacity() {
        // a capacity ten times the default one: the clean-up point is 16384 records
        let max_records = 10 * MAX_RECORDS_COUNT;
        // what the store will hold: 1% of its capacity
        let held = MAX_RECORDS_COUNT / 10;

        let temp_dir = std::env::temp_dir();
        let unique_dir_name = uuid::Uuid::new_v4().to_string();
        let storage_dir = temp_dir.join(unique_dir_name);
        fs::create_dir_all(&storage_dir).expect("Failed to create directory");

        let store_config = NodeRecordStoreConfig {
            max_records,
            storage_dir: storage_dir.clone(),
            historic_quote_dir: storage_dir,
            ..Default::default()
        };
        let self_id = PeerId::random();
        let self_address = NetworkAddress::from_peer(self_id);
        let (network_event_sender, _) = mpsc::channel(1);
        let (swarm_cmd_sender, _) = mpsc::channel(1);
        let mut store = NodeRecordStore::with_config(
            self_id,
            store_config,
            network_event_sender,
            swarm_cmd_sender,
        );

        let mut distances = vec![];
        for _ in 0..held {
            let record_key = NetworkAddress::from_peer(PeerId::random()).to_record_key();
            distances.push(convert_distance_to_u256(
                &self_address.distance(&NetworkAddress::from_record_key(&record_key)),
            ));
            // acknowledged write of the record
            store.mark_as_stored(record_key, RecordType::Chunk);
        }
        assert_eq!(held, store.record_addresses().len());
        assert!(store.record_addresses().len() < max_records / 10);

        // responsible range: the median distance, so that half of the held records are outside
        distances.sort();
        store.set_responsible_distance_range(distances[held / 2]);

        store.cleanup_irrelevant_records();

        assert_eq!(
            held,
            store.record_addresses().len(),
            "a store holding 1% of its capacity ({held} of {max_records}) is below the clean-up point (10%)"
        );
    }
