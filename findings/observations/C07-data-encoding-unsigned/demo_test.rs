
// C07 finding 3 -- appended to ant-node/src/node.rs
#[cfg(test)]
mod c07_demo_3 {
    use super::*;
    use ant_protocol::storage::{try_deserialize_record, try_serialize_record, RecordKind};
    use libp2p::kad::Record;

    /// A real `Node` on a real `Network` / `SwarmDriver` / `NodeRecordStore`, without any peer.
    fn test_node(root_dir: PathBuf) -> (Node, Receiver<NetworkEvent>) {
        let mut network_builder = NetworkBuilder::new(Keypair::generate_ed25519(), true);
        network_builder.listen_addr("127.0.0.1:0".parse().expect("addr"));
        let (network, network_event_receiver, swarm_driver) =
            network_builder.build_node(root_dir).expect("build_node");
        let node = Node {
            inner: Arc::new(NodeInner {
                network,
                events_channel: NodeEventsChannel::default(),
                initial_peers: vec![],
                reward_address: RewardsAddress::default(),
                #[cfg(feature = "open-metrics")]
                metrics_recorder: None,
                evm_network: EvmNetwork::default(),
            }),
        };
        let _handle = spawn(swarm_driver.run());
        (node, network_event_receiver)
    }

    /// Let the fire-and-forget local put, its disk write and `AddLocalRecordAsStored` complete.
    async fn settle() {
        tokio::time::sleep(Duration::from_millis(500)).await;
    }
    use ant_protocol::storage::{Scratchpad, ScratchpadAddress};

    fn scratchpad_record(pad: &Scratchpad) -> Record {
        Record {
            key: NetworkAddress::ScratchpadAddress(*pad.address()).to_record_key(),
            value: try_serialize_record(pad, RecordKind::Scratchpad)
                .expect("serialize")
                .to_vec(),
            publisher: None,
            expires: None,
        }
    }

    async fn stored_scratchpad(node: &Node, pad: &Scratchpad) -> Scratchpad {
        let key = NetworkAddress::ScratchpadAddress(*pad.address()).to_record_key();
        let record = node
            .network()
            .get_local_record(&key)
            .await
            .expect("get_local_record")
            .expect("a scratchpad is stored");
        try_deserialize_record::<Scratchpad>(&record).expect("stored scratchpad parses")
    }

    /// The owner signature of a scratchpad does not cover `data_encoding`. Anyone relaying a
    /// signed update can change that field; the node stores the altered scratchpad and then
    /// refuses the genuine one (same counter).
    #[tokio::test]
    async fn c07_3_stored_scratchpad_holds_only_owner_signed_content() {
        let tmp = tempfile::tempdir().expect("tempdir");
        let (node, _events) = test_node(tmp.path().to_path_buf());

        let sk = bls::SecretKey::random();
        let mut genuine = Scratchpad::new(sk.public_key(), 42);
        let _ = genuine.update_and_sign(Bytes::from_static(b"owner data"), &sk);

        // a third party (no secret key) rewrites the unsigned field of the serialised scratchpad
        type Raw = (ScratchpadAddress, u64, Bytes, u64, Option<bls::Signature>);
        let mut raw: Raw =
            rmp_serde::from_slice(&rmp_serde::to_vec(&genuine).expect("ser")).expect("de");
        assert_eq!(raw.1, 42);
        raw.1 = 666;
        let forged: Scratchpad =
            rmp_serde::from_slice(&rmp_serde::to_vec(&raw).expect("ser")).expect("de");
        assert_ne!(forged, genuine);
        assert_eq!(forged.data_encoding(), 666);

        let res_forged = node
            .store_replicated_in_record(scratchpad_record(&forged))
            .await;
        settle().await;
        let res_genuine = node
            .store_replicated_in_record(scratchpad_record(&genuine))
            .await;
        settle().await;
        println!("delivery of forged: {res_forged:?}; delivery of genuine: {res_genuine:?}");

        let stored = stored_scratchpad(&node, &genuine).await;
        println!("stored data_encoding: {}", stored.data_encoding());
        assert_eq!(
            stored, genuine,
            "the node must hold only what the owner signed (data_encoding 42), \
             not a third party's variant of it"
        );
    }
}
