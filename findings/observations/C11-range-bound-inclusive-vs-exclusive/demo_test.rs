    // ---- C11 demonstration (appended inside `mod tests` of ant-networking/src/record_store.rs) ----

    /// XOR of the SHA-256 digests of the two address byte strings, read as a 256-bit big-endian
    /// integer: the metric of the property, computed without any of the code under test.
    fn c11_xor_metric(a: &[u8], b: &[u8]) -> U256 {
        use sha2::Digest;
        let ha = Sha256::digest(a);
        let hb = Sha256::digest(b);
        let mut x = [0u8; 32];
        for i in 0..32 {
            x[i] = ha[i] ^ hb[i];
        }
        U256::from_be_bytes(x)
    }

    fn c11_store(self_id: PeerId) -> NodeRecordStore {
        // a private storage dir: the default config would walk (and clean) the whole temp dir
        let storage_dir = std::env::temp_dir().join(uuid::Uuid::new_v4().to_string());
        fs::create_dir_all(&storage_dir).expect("Failed to create directory");
        let store_config = NodeRecordStoreConfig {
            storage_dir: storage_dir.clone(),
            historic_quote_dir: storage_dir,
            ..Default::default()
        };
        let (network_event_sender, _) = mpsc::channel(1);
        let (swarm_cmd_sender, _) = mpsc::channel(1);
        NodeRecordStore::with_config(self_id, store_config, network_event_sender, swarm_cmd_sender)
    }

    /// The driver hands one and the same range value to the record store and to the replication
    /// fetcher ("shall be in sync"). A record whose distance to us equals that range is selected as
    /// in range by the fetcher (`<=`, like get_peers_in_range and calculate_get_closest_peers),
    /// but the store's range count leaves it out (`..range`).
    #[tokio::test]
    async fn c11_records_within_range_agrees_with_xor_integer_at_the_bound() {
        use crate::replication_fetcher::ReplicationFetcher;

        let self_id = PeerId::random();
        let self_bytes = self_id.to_bytes();
        let mut store = c11_store(self_id);

        let mut keys: Vec<RecordKey> = (0..9)
            .map(|_| RecordKey::new(&XorName::random(&mut rand::thread_rng()).0))
            .collect();
        for key in &keys {
            store.mark_as_stored(key.clone(), RecordType::Chunk);
        }
        keys.sort_by_key(|k| c11_xor_metric(&self_bytes, k.as_ref()));

        // the range bound is the distance of the 5th closest record we hold
        let bound_key = keys[4].clone();
        let far_key = keys[8].clone();
        let range = c11_xor_metric(&self_bytes, bound_key.as_ref());
        store.set_responsible_distance_range(range);

        // The replication fetcher, given the same range, selects the record at the bound as in
        // range and drops the farther one (both assertions pass).
        let (event_sender, _event_receiver) = mpsc::channel(4);
        let mut fetcher = ReplicationFetcher::new(self_id, event_sender);
        fetcher.set_replication_distance_range(range);
        let incoming = vec![
            (
                NetworkAddress::from_record_key(&bound_key),
                RecordType::Chunk,
            ),
            (NetworkAddress::from_record_key(&far_key), RecordType::Chunk),
        ];
        let to_fetch = fetcher.add_keys(PeerId::random(), incoming, &Default::default());
        assert!(
            to_fetch.iter().any(|(_, k)| *k == bound_key),
            "fetcher: record at the bound is in range"
        );
        assert!(
            !to_fetch.iter().any(|(_, k)| *k == far_key),
            "fetcher: farther record is out of range"
        );

        // What the integer says: 5 of the 9 held records are within the range.
        let expected = keys
            .iter()
            .filter(|k| c11_xor_metric(&self_bytes, k.as_ref()) <= range)
            .count();
        assert_eq!(expected, 5);

        // The store must select the same records for the same range.
        assert_eq!(
            store.get_records_within_distance_range(range),
            expected,
            "record store and replication fetcher disagree about the record at distance == range"
        );
    }

    /// Same bound, on the clean-up path: the record that the fetcher has just selected as in range
    /// (and that therefore gets fetched and stored) is removed as "irrelevant".
    #[tokio::test]
    async fn c11_cleanup_keeps_the_record_at_the_range_bound() {
        let self_id = PeerId::random();
        let self_bytes = self_id.to_bytes();
        let mut store = c11_store(self_id);

        // enough records for the clean-up to run at all
        let mut keys: Vec<RecordKey> = (0..MAX_RECORDS_COUNT / 10 + 10)
            .map(|_| RecordKey::new(&XorName::random(&mut rand::thread_rng()).0))
            .collect();
        for key in &keys {
            store.mark_as_stored(key.clone(), RecordType::Chunk);
        }
        keys.sort_by_key(|k| c11_xor_metric(&self_bytes, k.as_ref()));

        let bound_key = keys[keys.len() / 2].clone();
        let range = c11_xor_metric(&self_bytes, bound_key.as_ref());
        // in range for every `<= range` filter of the code base (fetcher, peers in range, ...)
        assert!(
            convert_distance_to_u256(
                &NetworkAddress::from_peer(self_id)
                    .distance(&NetworkAddress::from_record_key(&bound_key))
            ) <= range
        );

        store.set_responsible_distance_range(range);
        store.cleanup_irrelevant_records();

        assert!(
            store.contains(&bound_key),
            "the record at distance == range was cleaned up as out of range"
        );
    }
