
// ---------------------------------------------------------------------------------------------
// C09 (second audit), finding 1 -- appended at the end of ant-node/src/node.rs
//
// Two real nodes (real SwarmDriver + NodeRecordStore, listening on 127.0.0.1, no peers) are wired
// together in-process; the test acts as the transport of the replication exchange: it takes the
// record the holder would answer a `Query::GetReplicatedRecord` with (`get_local_record`) and hands
// it to the fetching node's `store_replicated_in_record`, exactly what
// `fetch_replication_keys_without_wait` does with the response.
// ---------------------------------------------------------------------------------------------
#[cfg(test)]
mod c09_h2_register_base_divergence {
    use super::*;
    use ant_protocol::storage::try_deserialize_record;
    use ant_registers::{Permissions, Register, RegisterCrdt, RegisterOp, SignedRegister};
    use bls::SecretKey;
    use libp2p::kad::{Record, RecordKey};
    use std::collections::BTreeSet;
    use xor_name::XorName;

    fn start_node(root_dir: PathBuf) -> Node {
        let mut network_builder = NetworkBuilder::new(Keypair::generate_ed25519(), true);
        network_builder.listen_addr("127.0.0.1:0".parse().expect("socket addr"));
        let (network, mut network_event_receiver, swarm_driver) = network_builder
            .build_node(root_dir)
            .expect("node network can be built");
        let node = Node {
            inner: Arc::new(NodeInner {
                network,
                events_channel: NodeEventsChannel::default(),
                initial_peers: vec![],
                reward_address: RewardsAddress::default(),
                #[cfg(feature = "open-metrics")]
                metrics_recorder: None,
                evm_network: EvmNetwork::default(),
            }),
        };
        let _handle = spawn(swarm_driver.run());
        // nothing is connected to the node: network events are only drained
        let _handle = spawn(async move { while network_event_receiver.recv().await.is_some() {} });
        node
    }

    async fn held_bytes(node: &Node, key: &RecordKey) -> Option<Vec<u8>> {
        // wait for disk writes of earlier puts to be acknowledged, then read what the node answers
        // a GetReplicatedRecord query with
        for _ in 0..50 {
            if node
                .network()
                .is_record_key_present_locally(key)
                .await
                .expect("swarm driver is running")
            {
                break;
            }
            tokio::time::sleep(Duration::from_millis(100)).await;
        }
        tokio::time::sleep(Duration::from_millis(300)).await;
        node.network()
            .get_local_record(key)
            .await
            .expect("swarm driver is running")
            .map(|record| record.value)
    }

    /// A register replica: base register (address + permissions) signed by the owner, plus one
    /// entry written and signed by the owner.
    fn replica(
        owner: &SecretKey,
        meta: XorName,
        permissions: Permissions,
        entry: &[u8],
    ) -> SignedRegister {
        let base = Register::new(owner.public_key(), meta, permissions);
        let signature = owner.sign(base.bytes().expect("register serialises"));
        let mut crdt = RegisterCrdt::new(*base.address());
        let (_hash, address, crdt_op) = crdt
            .write(entry.to_vec(), &BTreeSet::new())
            .expect("entry can be written");
        let op = RegisterOp::new(address, crdt_op, owner);
        SignedRegister::new(base, signature, BTreeSet::from([op]))
    }

    #[tokio::test]
    async fn c09_h2_registers_with_different_permissions_never_converge() {
        let dir_a = tempfile::tempdir().expect("temp dir");
        let dir_b = tempfile::tempdir().expect("temp dir");
        let node_a = start_node(dir_a.path().to_path_buf());
        let node_b = start_node(dir_b.path().to_path_buf());

        // The owner creates the register (meta, owner) twice: the first upload (only the owner
        // writes) reaches node A, the second one (anyone can write) reaches node B. Both are valid
        // registers of the SAME address, hence of the same record key.
        let owner = SecretKey::random();
        let meta = XorName::from_content(b"c09 register");
        let reg_on_a = replica(&owner, meta, Permissions::new_with([]), b"entry on A");
        let reg_on_b = replica(&owner, meta, Permissions::new_anyone_can_write(), b"entry on B");
        assert_eq!(reg_on_a.address(), reg_on_b.address());
        assert!(reg_on_a.verify().is_ok() && reg_on_b.verify().is_ok());
        let key = NetworkAddress::from_register_address(*reg_on_a.address()).to_record_key();

        // Accepted uploads: what `validate_and_store_record` does for RegisterWithPayment once the
        // payment has been verified (payment verification needs an EVM network and is left out).
        node_a
            .validate_and_store_register(reg_on_a, true)
            .await
            .expect("node A accepts the upload of the first register");
        node_b
            .validate_and_store_register(reg_on_b, true)
            .await
            .expect("node B accepts the upload of the second register");
        assert!(held_bytes(&node_a, &key).await.is_some());
        assert!(held_bytes(&node_b, &key).await.is_some());

        // Three full replication rounds in both directions, every advertised record fetched.
        for round in 1..=3 {
            let from_a = held_bytes(&node_a, &key).await.expect("A holds the register");
            let res_b = node_b
                .store_replicated_in_record(Record::new(key.clone(), from_a))
                .await;
            let from_b = held_bytes(&node_b, &key).await.expect("B holds the register");
            let res_a = node_a
                .store_replicated_in_record(Record::new(key.clone(), from_b))
                .await;
            println!("round {round}: B fetched A's copy -> {res_b:?}; A fetched B's copy -> {res_a:?}");
        }

        let on_a = held_bytes(&node_a, &key).await.expect("A holds the register");
        let on_b = held_bytes(&node_b, &key).await.expect("B holds the register");
        let reg_a: SignedRegister = try_deserialize_record(&Record::new(key.clone(), on_a.clone()))
            .expect("A holds a register");
        let reg_b: SignedRegister = try_deserialize_record(&Record::new(key.clone(), on_b.clone()))
            .expect("B holds a register");
        println!(
            "after 3 rounds: A holds permissions {:?} with {} op(s), B holds permissions {:?} with {} op(s)",
            reg_a.base_register().permissions(),
            reg_a.ops().len(),
            reg_b.base_register().permissions(),
            reg_b.ops().len()
        );
        assert!(
            on_a == on_b,
            "after three replication rounds in both directions the two neighbours still hold different registers under the same key"
        );
    }
}
