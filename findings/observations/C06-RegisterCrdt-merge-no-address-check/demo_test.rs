// C06 demonstration: RegisterCrdt::merge takes in the entries of a replica of ANOTHER register.
//
// RegisterCrdt::apply_op and SignedRegister::add_op / merge all refuse content that belongs to a
// different register (RegisterAddrMismatch / DifferentBaseRegister). RegisterCrdt::merge performs no
// such check: the replica of register X presents register Y's entry as its current value.

use ant_registers::{
    Error, Permissions, Register, RegisterAddress, RegisterCrdt, RegisterOp, SignedRegister,
};
use bls::SecretKey;
use std::collections::BTreeSet;
use xor_name::XorName;

#[test]
fn c06_crdt_merge_rejects_replica_of_another_register() {
    let owner = SecretKey::random();
    let addr_x = RegisterAddress::new(XorName([0x11; 32]), owner.public_key());
    let addr_y = RegisterAddress::new(XorName([0x22; 32]), owner.public_key());

    // replica of register Y, holding one entry
    let mut crdt_y = RegisterCrdt::new(addr_y);
    let (_hash, op_addr, crdt_op) = crdt_y
        .write(b"entry of register Y".to_vec(), &BTreeSet::new())
        .unwrap();
    assert_eq!(op_addr, addr_y);
    let op_y = RegisterOp::new(op_addr, crdt_op, &owner);

    // every other way into a replica of register X refuses that entry ...
    let base_x = Register::new(owner.public_key(), addr_x.meta(), Permissions::default());
    let sig = owner.sign(base_x.bytes().unwrap());
    let mut signed_x = SignedRegister::new(base_x, sig, BTreeSet::new());
    assert!(matches!(
        signed_x.add_op(op_y.clone()),
        Err(Error::RegisterAddrMismatch { .. })
    ));
    let mut crdt_x = RegisterCrdt::new(addr_x);
    assert!(matches!(
        crdt_x.apply_op(op_y),
        Err(Error::RegisterAddrMismatch { .. })
    ));
    assert!(crdt_x.read().is_empty());

    // ... but merging the replica of Y into the replica of X is not refused
    crdt_x.merge(crdt_y);

    assert_eq!(crdt_x.address(), &addr_x);
    let values: Vec<String> = crdt_x
        .read()
        .into_iter()
        .map(|(_, v)| String::from_utf8_lossy(&v).into_owned())
        .collect();
    assert!(
        values.is_empty(),
        "the replica of register X presents content of register Y after merge: {values:?}"
    );
}
