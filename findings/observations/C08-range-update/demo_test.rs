
// ---- C08 hunt demo 2 -------------------------------------------------------
// Append this module to ant-networking/src/replication_fetcher.rs and run
//   cargo test -p ant-networking --offline --lib c08_hunt_demo_2
//
// `set_replication_distance_range` only stores the new range. Entries that were admitted to
// `to_be_fetched` from a periodic multi-record advertisement under an earlier, wider range are
// not re-checked, neither on the update nor when `next_keys_to_fetch` schedules them
// (contrast `set_farthest_on_full`, which prunes both queues). After the responsible distance
// shrinks, the fetcher therefore schedules records from a multi-record advertisement that lie
// outside its responsible distance.
#[cfg(test)]
mod c08_hunt_demo_2 {
    use super::{ReplicationFetcher, MAX_PARALLEL_FETCH};
    use ant_protocol::{convert_distance_to_u256, storage::RecordType, NetworkAddress};
    use libp2p::{kad::RecordKey, PeerId};
    use std::collections::HashMap;
    use tokio::sync::mpsc;

    #[test]
    fn c08_hunt_demo_2_queued_record_fetched_after_range_shrinks() {
        let self_peer = PeerId::random();
        let self_address = NetworkAddress::from_peer(self_peer);
        let (event_sender, _event_receiver) = mpsc::channel(4);
        let mut fetcher = ReplicationFetcher::new(self_peer, event_sender);
        let locally_stored = HashMap::new();

        // 3 * MAX random record addresses, sorted closest-first.
        let mut addrs: Vec<NetworkAddress> = (0..3 * MAX_PARALLEL_FETCH)
            .map(|_| {
                let random_data: Vec<u8> = (0..50).map(|_| rand::random::<u8>()).collect();
                NetworkAddress::from_record_key(&RecordKey::from(random_data))
            })
            .collect();
        addrs.sort_by_key(|a| self_address.distance(a));
        let dist = |a: &NetworkAddress| convert_distance_to_u256(&self_address.distance(a));

        // Wide range: everything generated is in range.
        let wide = dist(&addrs[3 * MAX_PARALLEL_FETCH - 1]);
        fetcher.set_replication_distance_range(wide);

        // Periodic advertisement: the MAX closest records plus two distant (still in range) ones.
        let far_1 = addrs[2 * MAX_PARALLEL_FETCH].clone();
        let far_2 = addrs[2 * MAX_PARALLEL_FETCH + 1].clone();
        let mut list: Vec<_> = addrs[..MAX_PARALLEL_FETCH]
            .iter()
            .map(|a| (a.clone(), RecordType::Chunk))
            .collect();
        list.push((far_1.clone(), RecordType::Chunk));
        list.push((far_2.clone(), RecordType::Chunk));

        let holder = PeerId::random();
        let fetched = fetcher.add_keys(holder, list, &locally_stored);
        // closest MAX are in flight, the two distant ones are queued
        assert_eq!(fetched.len(), MAX_PARALLEL_FETCH);
        assert_eq!(fetcher.to_be_fetched.len(), 2);

        // Range update: the responsible distance shrinks, the two queued records are now
        // clearly outside of it.
        let narrow = dist(&addrs[MAX_PARALLEL_FETCH + 2]);
        assert!(dist(&far_1) > narrow && dist(&far_2) > narrow);
        fetcher.set_replication_distance_range(narrow);

        // Sanity: with the narrow range in force a fresh multi-record advertisement of these
        // very records (from another holder) is rejected as out of range.
        let other_holder = PeerId::random();
        let fetched = fetcher.add_keys(
            other_holder,
            vec![
                (far_1.clone(), RecordType::Chunk),
                (far_2.clone(), RecordType::Chunk),
            ],
            &locally_stored,
        );
        assert!(fetched.is_empty());
        assert!(!fetcher
            .to_be_fetched
            .keys()
            .any(|(_, _, h)| *h == other_holder));

        // One of the in-flight records arrives, a slot frees up.
        let fetched =
            fetcher.notify_about_new_put(addrs[0].to_record_key(), RecordType::Chunk);

        for (_holder, key) in &fetched {
            let addr = NetworkAddress::from_record_key(key);
            assert!(
                dist(&addr) <= narrow,
                "record {addr:?} (from a multi-record advertisement) was scheduled although it \
                 lies outside the current responsible distance"
            );
        }
    }
}
