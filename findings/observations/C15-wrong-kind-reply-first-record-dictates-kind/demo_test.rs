// Appended inside `#[cfg(test)] mod tests { use super::*; ... }` at the end of
// ant-networking/src/lib.rs (after test_network_sign_verify).

    /// C15: a vault (scratchpad) read whose replies are split between the owner's authentic pad
    /// (returned by three holders) and ONE record of another kind that a fourth holder keeps under
    /// the same key. The read must hand back the authentic pad: the foreign version is to be
    /// discarded, not the authentic one.
    ///
    /// The stand-in driver below answers `GetNetworkRecord` exactly as
    /// `SwarmDriver::accumulate_get_record_found` does when the majority is reached while the
    /// result map holds two content hashes: `Err(GetRecordError::SplitRecord { result_map })`.
    /// Everything after that (`get_record_from_network`, `handle_split_record_error`) is the real code.
    #[tokio::test]
    async fn c15_wrong_kind_reply_must_not_shadow_the_authentic_scratchpad() {
        use ant_protocol::storage::{Chunk, RecordKind as Kind, Scratchpad as Pad};
        use bytes::Bytes;
        use libp2p::kad::Quorum;

        // the owner's vault, written three times => counter 3, validly signed
        let owner_sk = bls::SecretKey::random();
        let mut pad = Pad::new(owner_sk.public_key(), 0);
        for _ in 0..3 {
            let _ = pad.update_and_sign(Bytes::from_static(b"the owner's vault content"), &owner_sk);
        }
        assert!(pad.is_valid());
        assert_eq!(pad.count(), 3);
        let key = pad.network_address().to_record_key();

        let authentic = Record {
            key: key.clone(),
            value: try_serialize_record(&pad, Kind::Scratchpad)
                .expect("serialise pad")
                .to_vec(),
            publisher: None,
            expires: None,
        };
        // what the faulty / adversarial holder answers under the same key: a record of another kind
        let wrong_kind = Record {
            key: key.clone(),
            value: try_serialize_record(&Chunk::new(Bytes::from_static(b"not a scratchpad")), Kind::Chunk)
                .expect("serialise chunk")
                .to_vec(),
            publisher: None,
            expires: None,
        };

        let (net_tx, mut net_rx) = mpsc::channel::<NetworkSwarmCmd>(16);
        let (local_tx, _local_rx) = mpsc::channel::<LocalSwarmCmd>(16);
        let network = Network::new(
            net_tx,
            local_tx,
            PeerId::random(),
            Keypair::generate_ed25519(),
        );

        let honest: Vec<PeerId> = (0..3).map(|_| PeerId::random()).collect();
        let faulty = PeerId::random();
        let (authentic_c, wrong_kind_c) = (authentic.clone(), wrong_kind.clone());
        let _driver = spawn(async move {
            while let Some(cmd) = net_rx.recv().await {
                if let NetworkSwarmCmd::GetNetworkRecord { sender, .. } = cmd {
                    // a fresh map per query, as in the driver's pending_get_record entry
                    let mut result_map: HashMap<XorName, (Record, HashSet<PeerId>)> =
                        HashMap::new();
                    let _ = result_map.insert(
                        XorName::from_content(&wrong_kind_c.value),
                        (wrong_kind_c.clone(), HashSet::from([faulty])),
                    );
                    let _ = result_map.insert(
                        XorName::from_content(&authentic_c.value),
                        (authentic_c.clone(), honest.iter().copied().collect()),
                    );
                    let _ = sender.send(Err(GetRecordError::SplitRecord { result_map }));
                }
            }
        });

        // the configuration Client::get_vault_from_network reads with
        let cfg = GetRecordCfg {
            get_quorum: Quorum::Majority,
            retry_strategy: None,
            target_record: None,
            expected_holders: HashSet::new(),
            is_register: false,
        };

        let rounds = 64;
        let mut failed = Vec::new();
        for round in 0..rounds {
            match network.get_record_from_network(key.clone(), &cfg).await {
                Ok(record) => {
                    let got: Pad = try_deserialize_record(&record).expect("a scratchpad");
                    assert_eq!(got, pad, "a version other than the authentic one was returned");
                }
                Err(err) => failed.push((round, format!("{err}"))),
            }
        }
        assert!(
            failed.is_empty(),
            "{} of {rounds} identical reads failed although three holders returned the owner's validly \
             signed pad (counter 3) and only one holder returned a record of another kind; first failure: {:?}",
            failed.len(),
            failed.first()
        );
    }
