// C13 finding 2: the `pub_key` bytes carried by a quote can be altered (non-canonical protobuf:
// an appended unknown field, or a repeated field) without making verification fail, and every
// such alteration yields a different quote hash for the very same node signature.

use ant_evm::{EncodedPeerId, PaymentQuote, ProofOfPayment, QuotingMetrics, RewardsAddress};
use libp2p::identity::Keypair;
use std::time::SystemTime;
use xor_name::XorName;

fn signed_quote(keypair: &Keypair) -> PaymentQuote {
    let content = XorName([7u8; 32]);
    let timestamp = SystemTime::now();
    let quoting_metrics = QuotingMetrics::default();
    let rewards_address = RewardsAddress::from([0x11u8; 20]);
    // same steps as Node::create_quote_for_storecost
    let bytes =
        PaymentQuote::bytes_for_signing(content, timestamp, &quoting_metrics, &rewards_address);
    let signature = keypair.sign(&bytes).expect("signing to work");
    PaymentQuote {
        content,
        timestamp,
        quoting_metrics,
        rewards_address,
        pub_key: keypair.public().encode_protobuf(),
        signature,
    }
}

#[test]
fn c13_altering_the_carried_key_must_make_verification_fail() {
    let keypair = Keypair::generate_ed25519();
    let peer_id = keypair.public().to_peer_id();
    let quote = signed_quote(&keypair);
    assert!(quote.check_is_signed_by_claimed_peer(peer_id));

    // Alteration 1: append an unknown protobuf field (field 3, varint 0) to the key bytes.
    let mut appended = quote.clone();
    appended.pub_key.extend_from_slice(&[0x18, 0x00]);

    // Alteration 2: prepend a bogus `Data` field (field 2, 3 junk bytes); the real one, coming
    // later, overrides it when decoding.
    let mut prepended = quote.clone();
    let mut bytes = vec![0x12, 0x03, 0xde, 0xad, 0xbf];
    bytes.extend_from_slice(&quote.pub_key);
    prepended.pub_key = bytes;

    let mut still_verifying = vec![];
    for (what, altered) in [("appended", &appended), ("prepended", &prepended)] {
        assert_ne!(altered.pub_key, quote.pub_key);
        // the altered quote is a different quote as far as payment is concerned ...
        assert_ne!(altered.hash(), quote.hash(), "{what}");
        // ... so, the key having been altered, it must not verify any more.
        if altered.check_is_signed_by_claimed_peer(peer_id) {
            still_verifying.push(format!("quote with {what} key bytes verifies"));
        }
        let proof = ProofOfPayment {
            peer_quotes: vec![(EncodedPeerId::from(peer_id), altered.clone())],
        };
        if proof.verify_for(peer_id) {
            still_verifying.push(format!("proof holding the quote with {what} key bytes verifies"));
        }
    }
    assert!(
        still_verifying.is_empty(),
        "altered key, verification did not fail: {still_verifying:?}"
    );
}
