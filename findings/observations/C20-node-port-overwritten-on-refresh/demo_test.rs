
    // -----------------------------------------------------------------------------------------
    // C20 demonstration 2: a home-network node installed with `--node-port 12000` is relaunched
    // by the upgrade with `--port <port of its relay>`.
    //
    // A node behind NAT (`--home-network`) listens through relays: ant-networking's RelayManager
    // calls `swarm.listen_on(/ip4/<relay ip>/udp/<relay port>/quic-v1/p2p/<relay id>/p2p-circuit)`
    // and libp2p reports that address as a listen address, so the node's RPC `network_info`
    // returns it among `swarm.listeners()` (which iterates a HashMap: any order).
    // `NodeService::on_start(_, true)` -- run by `antctl start`, `antctl status` and the start at
    // the end of every upgrade -- overwrites the recorded `node_port` with the UDP port of the
    // first listener, whichever it is.  The installation and the upgrade below are the real
    // builders; only the RPC answer of the node is mocked (as in every test of this module).
    // -----------------------------------------------------------------------------------------
    #[tokio::test]
    async fn c20_upgrade_should_keep_the_node_port_of_a_home_network_node() -> Result<()> {
        use crate::add_services::config::InstallNodeServiceCtxBuilder;
        use libp2p::Multiaddr;

        fn arg_value(ctx: &ServiceInstallCtx, flag: &str) -> Option<String> {
            let pos = ctx.args.iter().position(|a| a == flag)?;
            ctx.args.get(pos + 1).map(|v| v.to_string_lossy().to_string())
        }

        let rewards_address =
            RewardsAddress::from_str("0x03B770D9cD32077cC0bF330c13C114a87643B124")?;
        let rpc_socket_addr = SocketAddr::new(IpAddr::V4(Ipv4Addr::new(127, 0, 0, 1)), 8081);

        // `antctl add --home-network --node-port 12000`: what add_node installs ...
        let install_ctx = InstallNodeServiceCtxBuilder {
            antnode_path: PathBuf::from("/var/antctl/services/antnode1/antnode"),
            autostart: false,
            data_dir_path: PathBuf::from("/var/antctl/services/antnode1"),
            env_variables: None,
            evm_network: EvmNetwork::ArbitrumOne,
            home_network: true,
            log_dir_path: PathBuf::from("/var/log/antnode/antnode1"),
            log_format: None,
            max_archived_log_files: None,
            max_log_files: None,
            metrics_port: None,
            name: "antnode1".to_string(),
            network_id: None,
            node_ip: None,
            node_port: Some(12000),
            owner: None,
            peers_args: PeersArgs::default(),
            rewards_address,
            rpc_socket_addr,
            service_user: Some("ant".to_string()),
            upnp: false,
        }
        .build()?;
        assert_eq!(arg_value(&install_ctx, "--port"), Some("12000".to_string()));

        // ... and what it records in the registry.
        let mut service_data = NodeServiceData {
            antnode_path: PathBuf::from("/var/antctl/services/antnode1/antnode"),
            auto_restart: false,
            connected_peers: None,
            data_dir_path: PathBuf::from("/var/antctl/services/antnode1"),
            evm_network: EvmNetwork::ArbitrumOne,
            home_network: true,
            listen_addr: None,
            log_dir_path: PathBuf::from("/var/log/antnode/antnode1"),
            log_format: None,
            max_archived_log_files: None,
            max_log_files: None,
            metrics_port: None,
            network_id: None,
            node_ip: None,
            node_port: Some(12000),
            number: 1,
            owner: None,
            peer_id: None,
            peers_args: PeersArgs::default(),
            pid: None,
            rewards_address,
            reward_balance: None,
            rpc_socket_addr,
            service_name: "antnode1".to_string(),
            status: ServiceStatus::Added,
            upnp: false,
            user: Some("ant".to_string()),
            user_mode: false,
            version: "0.1.0".to_string(),
        };

        // `antctl start`
        let mut mock_service_control = MockServiceControl::new();
        let mut mock_rpc_client = MockRpcClient::new();
        mock_service_control
            .expect_start()
            .with(eq("antnode1"), eq(false))
            .times(1)
            .returning(|_, _| Ok(()));
        mock_service_control
            .expect_wait()
            .with(eq(3000))
            .times(1)
            .returning(|_| ());
        mock_service_control
            .expect_get_process_pid()
            .with(eq(PathBuf::from("/var/antctl/services/antnode1/antnode")))
            .times(1)
            .returning(|_| Ok(1000));
        mock_rpc_client.expect_node_info().times(1).returning(|| {
            Ok(NodeInfo {
                pid: 1000,
                peer_id: PeerId::from_str("12D3KooWS2tpXGGTmg2AHFiDh57yPQnat49YHnyqoggzXZWpqkCR")?,
                data_path: PathBuf::from("/var/antctl/services/antnode1"),
                log_path: PathBuf::from("/var/log/antnode/antnode1"),
                version: "0.1.0".to_string(),
                uptime: std::time::Duration::from_secs(1),
                wallet_balance: 0,
            })
        });
        // The node listens on its own port 12000 and through one relay (whose port is 40123).
        mock_rpc_client
            .expect_network_info()
            .times(1)
            .returning(|| {
                Ok(NetworkInfo {
                    connected_peers: Vec::new(),
                    listeners: vec![
                        "/ip4/203.0.113.7/udp/40123/quic-v1/p2p/12D3KooWRBhwfeP2Y4TCx1SM6s9rUoHhR5STiGwxBhgFRcw3UERE/p2p-circuit"
                            .parse::<Multiaddr>()?,
                        "/ip4/192.168.1.20/udp/12000/quic-v1".parse::<Multiaddr>()?,
                    ],
                })
            });

        let service = NodeService::new(&mut service_data, Box::new(mock_rpc_client));
        let mut service_manager = ServiceManager::new(
            service,
            Box::new(mock_service_control),
            VerbosityLevel::Minimal,
        );
        service_manager.start().await?;

        // `antctl upgrade`: the definition the service is re-installed with.
        let upgrade_ctx = service_manager
            .service
            .build_upgrade_install_context(UpgradeOptions {
                auto_restart: false,
                env_variables: None,
                force: false,
                start_service: true,
                target_bin_path: PathBuf::from("/tmp/antnode"),
                target_version: Version::parse("0.2.0").unwrap(),
            })?;

        assert_eq!(
            arg_value(&upgrade_ctx, "--port"),
            arg_value(&install_ctx, "--port"),
            "the node was installed to listen on port 12000; the upgrade relaunches it with the port of its relay"
        );

        Ok(())
    }
