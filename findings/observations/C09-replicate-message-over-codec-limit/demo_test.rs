// C09 finding 3 -- demonstration, two parts.
// Run:  CARGO_TARGET_DIR=/tmp/wt/C09hunt/target USER=root cargo test -p ant-node --offline --lib registers_advertises_them   (control with 8000 passes, 9000 fails; about 80s)
//       CARGO_TARGET_DIR=/tmp/wt/C09hunt/target USER=root cargo test -p ant-networking --offline --lib c09_periodic_advertisement
// The harness block (imports, `TestNode`, `register_record`, `new_register`, `new_op`) is shared by the
// demonstrations of findings 1, 2 and 3: when several of them are added to the same file it is added once.

// ===== Part 1: appended inside `mod tests` of ant-node/src/node.rs (before its closing brace) =====

    // ------------------------------------------------------------------------------------------
    // C09 demonstrations: real nodes, wired together in-process over the loopback interface.
    //
    // Every node is started with the production `NodeBuilder::build_and_run` (local mode, so that
    // loopback addresses are dialable). Records are put into a node's store through the node's own
    // acceptance functions (`store_chunk`, `store_replicated_in_record`, `validate_and_store_register`,
    // `validate_and_store_record`), replication is the node's own: the `PeerAdded` round that both
    // nodes run when they connect, and further rounds asked for with `trigger_interval_replication`.
    // ------------------------------------------------------------------------------------------
    use ant_protocol::storage::{
        try_deserialize_record, try_serialize_record, Chunk, RecordKind, Scratchpad, Transaction,
    };
    use ant_registers::{Permissions, Register, RegisterCrdt, RegisterOp, SignedRegister};
    use libp2p::kad::{Record, RecordKey};
    use libp2p::multiaddr::Protocol;
    use std::collections::BTreeSet;
    use xor_name::XorName;

    struct TestNode {
        node: Node,
        addr: Multiaddr,
        _root: tempfile::TempDir,
    }

    impl TestNode {
        async fn start() -> Self {
            let root = tempfile::tempdir().expect("temp dir");
            let running = NodeBuilder::new(
                Keypair::generate_ed25519(),
                RewardsAddress::default(),
                EvmNetwork::default(),
                "127.0.0.1:0".parse().expect("socket addr"),
                true,
                root.path().to_path_buf(),
                #[cfg(feature = "upnp")]
                false,
            )
            .build_and_run()
            .expect("node starts");

            // A handle on the very same running node (same `Network`), to be able to call the
            // node's record acceptance functions.
            let node = Node {
                inner: Arc::new(NodeInner {
                    events_channel: running.node_events_channel.clone(),
                    initial_peers: vec![],
                    network: running.network.clone(),
                    #[cfg(feature = "open-metrics")]
                    metrics_recorder: None,
                    reward_address: RewardsAddress::default(),
                    evm_network: EvmNetwork::default(),
                }),
            };

            let peer_id = node.network().peer_id();
            let addr = loop {
                let state = node
                    .network()
                    .get_swarm_local_state()
                    .await
                    .expect("swarm state");
                if let Some(addr) = state.listeners.first() {
                    let mut addr = addr.clone();
                    if addr.iter().last() != Some(Protocol::P2p(peer_id)) {
                        addr.push(Protocol::P2p(peer_id));
                    }
                    break addr;
                }
                tokio::time::sleep(Duration::from_millis(100)).await;
            };

            Self {
                node,
                addr,
                _root: root,
            }
        }

        async fn holds(&self, key: &RecordKey) -> bool {
            self.node
                .network()
                .is_record_key_present_locally(key)
                .await
                .expect("store query")
        }

        async fn wait_until_holds(&self, key: &RecordKey, secs: u64) -> bool {
            for _ in 0..secs * 10 {
                if self.holds(key).await {
                    return true;
                }
                tokio::time::sleep(Duration::from_millis(100)).await;
            }
            false
        }

        async fn bytes_of(&self, key: &RecordKey) -> Option<Vec<u8>> {
            self.node
                .network()
                .get_local_record(key)
                .await
                .expect("store query")
                .map(|r| r.value)
        }
    }

    fn register_record(reg: &SignedRegister) -> Record {
        Record {
            key: NetworkAddress::from_register_address(*reg.address()).to_record_key(),
            value: try_serialize_record(reg, RecordKind::Register)
                .expect("serialise")
                .to_vec(),
            publisher: None,
            expires: None,
        }
    }

    fn new_register(owner: &bls::SecretKey) -> SignedRegister {
        let base = Register::new(
            owner.public_key(),
            XorName::random(&mut thread_rng()),
            Permissions::default(),
        );
        let signature = owner.sign(base.bytes().expect("register bytes"));
        SignedRegister::new(base, signature, BTreeSet::new())
    }

    // An op as a writer's replica produces it: a new root entry holding `value`.
    fn new_op(reg: &SignedRegister, value: Vec<u8>, writer: &bls::SecretKey) -> RegisterOp {
        let mut crdt = RegisterCrdt::new(*reg.address());
        let (_hash, address, crdt_op) = crdt.write(value, &BTreeSet::new()).expect("crdt write");
        RegisterOp::new(address, crdt_op, writer)
    }

    /// A holds `first` registers when B becomes its neighbour, and `total` registers when it runs
    /// its next periodic round. Returns how many records B holds some time after that round.
    async fn c09_records_held_by_neighbour_after_second_round(first: usize, total: usize) -> usize {
        let a = TestNode::start().await;
        let b = TestNode::start().await;
        let owner = bls::SecretKey::random();

        let count = |node: &TestNode| {
            let network = node.node.network().clone();
            async move {
                network
                    .get_all_local_record_addresses()
                    .await
                    .expect("store query")
                    .len()
            }
        };

        // control: with `first` registers on A, the neighbour fetches all of them
        for _ in 0..first {
            a.node
                .store_replicated_in_record(register_record(&new_register(&owner)))
                .await
                .expect("A accepts the register");
        }
        for _ in 0..100 {
            if count(&a).await == first {
                break;
            }
            tokio::time::sleep(Duration::from_millis(100)).await;
        }
        assert_eq!(count(&a).await, first, "A indexed its records");

        b.node
            .network()
            .dial(a.addr.clone())
            .await
            .expect("B dials A");
        let connected_at = Instant::now();
        for _ in 0..600 {
            if count(&b).await == first {
                break;
            }
            tokio::time::sleep(Duration::from_millis(100)).await;
        }
        assert_eq!(
            count(&b).await,
            first,
            "control failed: B did not fetch the registers A advertised in the first round"
        );

        // A accepts more registers
        for _ in first..total {
            a.node
                .store_replicated_in_record(register_record(&new_register(&owner)))
                .await
                .expect("A accepts the register");
        }
        for _ in 0..600 {
            if count(&a).await == total {
                break;
            }
            tokio::time::sleep(Duration::from_millis(100)).await;
        }
        assert_eq!(count(&a).await, total, "A indexed its records");

        // next periodic round of A, once the per-peer back-off (45s) and the minimum interval
        // (30s) of `try_interval_replication` have passed
        while connected_at.elapsed() < Duration::from_secs(47) {
            tokio::time::sleep(Duration::from_millis(500)).await;
        }
        a.node.network().trigger_interval_replication();

        // B has an empty store otherwise and fetches 20 records in parallel: it has to learn of
        // the new records and start pulling them in
        let mut held_by_b = count(&b).await;
        for _ in 0..300 {
            if held_by_b > first {
                break;
            }
            tokio::time::sleep(Duration::from_millis(100)).await;
            held_by_b = count(&b).await;
        }
        held_by_b
    }

    /// Control for the test below: 8000 registers are advertised and the neighbour pulls them in.
    #[tokio::test(flavor = "multi_thread", worker_threads = 4)]
    async fn c09_control_node_with_8000_registers_advertises_them_to_its_neighbour() {
        let held_by_b = c09_records_held_by_neighbour_after_second_round(100, 8000).await;
        assert!(held_by_b > 100, "B holds {held_by_b} records");
    }

    /// Property: "A node advertises every record it holds to its replication targets".
    ///
    /// A holds 9000 registers (its store takes 16384 records). Its periodic advertisement, one
    /// `Cmd::Replicate` listing every (address, type) it holds, is then larger than the 1 MiB the
    /// request-response codec of the receiver reads, and the neighbour learns of none of them.
    #[tokio::test(flavor = "multi_thread", worker_threads = 4)]
    async fn c09_node_with_9000_registers_advertises_them_to_its_neighbour() {
        let held_by_b = c09_records_held_by_neighbour_after_second_round(100, 9000).await;
        assert!(
            held_by_b > 100,
            "A holds 9000 records and ran a replication round, B still holds only the \
             {held_by_b} records of the first round: none of the other 8900 was advertised to it"
        );
    }

// ===== Part 2: appended inside `mod tests` of ant-networking/src/lib.rs (before its closing brace) =====

    // The codec of the request-response behaviour the driver is built with
    // (`request_response::cbor::Behaviour<Request, Response>`, see `NetworkBuilder::build`).
    fn c09_codec_of<C: libp2p::request_response::Codec + Default + Clone + Send + 'static>(
        _behaviour: &libp2p::request_response::Behaviour<C>,
    ) -> C {
        C::default()
    }

    // C09: the periodic advertisement of a node that holds 9000 registers / transaction sets
    // (`try_interval_replication`: one `Cmd::Replicate` with every entry of the store's index)
    // has to reach the neighbour it is sent to.
    #[tokio::test]
    async fn c09_periodic_advertisement_of_9000_non_chunk_records_is_readable_by_the_receiver() {
        use ant_protocol::messages::{Cmd, Request, Response};
        use ant_protocol::storage::RecordType;
        use libp2p::request_response::{self, Codec, ProtocolSupport};
        use libp2p::StreamProtocol;

        let proto = StreamProtocol::new("/c09/req-resp");
        let behaviour = request_response::cbor::Behaviour::<Request, Response>::new(
            [(proto.clone(), ProtocolSupport::Full)],
            request_response::Config::default(),
        );
        let mut codec = c09_codec_of(&behaviour);

        for n in [8000usize, 9000] {
            // entries as `NodeRecordStore::mark_as_stored` indexes them and
            // `try_interval_replication` copies them into the request
            let keys: Vec<_> = (0..n)
                .map(|_| {
                    let random_data: Vec<u8> = (0..32).map(|_| rand::random::<u8>()).collect();
                    let key = RecordKey::from(random_data.clone());
                    (
                        NetworkAddress::from_record_key(&key),
                        RecordType::NonChunk(xor_name::XorName::from_content(&random_data)),
                    )
                })
                .collect();
            let request = Request::Cmd(Cmd::Replicate {
                holder: NetworkAddress::from_peer(PeerId::random()),
                keys,
            });

            let mut wire = futures::io::Cursor::new(Vec::new());
            codec
                .write_request(&proto, &mut wire, request.clone())
                .await
                .expect("the sender writes the request");
            let bytes = wire.into_inner();
            let len = bytes.len();
            let received = codec
                .read_request(&proto, &mut futures::io::Cursor::new(bytes))
                .await;
            assert!(
                matches!(&received, Ok(r) if *r == request),
                "advertisement of {n} records ({len} bytes on the wire) is not received: {:?}",
                received.err()
            );
        }
    }
