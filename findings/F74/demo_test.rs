    // Demo for cb047f9: the scenario of the commit message, one step further down the same read.
    // A scratchpad read of `key`: three peers agree on the owner's pad, one peer answers with a
    // transaction record of its own under the same key. accumulate_get_record_found (kad.rs) now
    // hands the caller SplitRecord with both versions; get_record_from_network passes exactly that
    // map to handle_split_record_error, which must not turn the rogue's transactions into the
    // answer of the read. It does whenever the per-query HashMap happens to yield the rogue version
    // first (the first version visited dictates the kind, the pad is then skipped as "different
    // kind", and any record with two transactions is returned as the merged result).
    #[test]
    fn split_read_of_a_scratchpad_is_not_answered_with_a_peers_transaction_record() {
        use ant_protocol::storage::ScratchpadAddress;
        use std::collections::HashSet;

        // the owner's authentic pad, held by three peers
        let owner_sk = bls::SecretKey::random();
        let mut pad = Scratchpad::new(owner_sk.public_key(), 0);
        let _ = pad.update_and_sign(bytes::Bytes::from_static(b"vault content"), &owner_sk);
        assert!(pad.is_valid());
        let key = NetworkAddress::from_scratchpad_address(ScratchpadAddress::new(
            owner_sk.public_key(),
        ))
        .to_record_key();
        let pad_record = Record {
            key: key.clone(),
            value: try_serialize_record(&pad, RecordKind::Scratchpad)
                .expect("serialise pad")
                .to_vec(),
            publisher: None,
            expires: None,
        };
        let three_peers: HashSet<PeerId> = (0..3).map(|_| PeerId::random()).collect();

        // the rogue peer's reply under the same key: a transaction record of its own
        let rogue_sk = bls::SecretKey::random();
        let rogue_transactions = vec![
            Transaction::new(rogue_sk.public_key(), vec![], [1u8; 32], vec![], &rogue_sk),
            Transaction::new(rogue_sk.public_key(), vec![], [2u8; 32], vec![], &rogue_sk),
        ];
        let rogue_record = Record {
            key: key.clone(),
            value: try_serialize_record(&rogue_transactions, RecordKind::Transaction)
                .expect("serialise transactions")
                .to_vec(),
            publisher: None,
            expires: None,
        };
        let one_peer: HashSet<PeerId> = [PeerId::random()].into_iter().collect();

        // The map is built per query with a fresh RandomState: repeat, so that both visiting orders
        // are met (the chance of not meeting one of them in 64 rounds is 2^-63).
        for round in 0..64 {
            let mut result_map: HashMap<XorName, (Record, HashSet<PeerId>)> = HashMap::new();
            let _ = result_map.insert(
                XorName::from_content(&pad_record.value),
                (pad_record.clone(), three_peers.clone()),
            );
            let _ = result_map.insert(
                XorName::from_content(&rogue_record.value),
                (rogue_record.clone(), one_peer.clone()),
            );

            let outcome = Network::handle_split_record_error(&result_map, &key)
                .expect("handling the split does not error");

            if let Some(record) = &outcome {
                let kind = RecordHeader::from_record(record).expect("header").kind;
                assert_eq!(
                    kind,
                    RecordKind::Scratchpad,
                    "round {round}: the scratchpad read was answered with a record of kind {kind:?} \
                     (the single peer's transactions), not with the pad three peers agree on"
                );
                let returned: Scratchpad = try_deserialize_record(record).expect("a pad");
                assert_eq!(returned, pad, "round {round}: another pad was returned");
            }
            // the valid pad of the requested address is there in every round: it is the answer
            assert!(
                outcome.is_some(),
                "round {round}: the owner's valid pad was dropped from the split"
            );
        }
    }
