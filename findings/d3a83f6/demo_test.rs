
#[cfg(test)]
mod finding_refused_record_stays_cached {
    use super::*;
    use tokio::time::{timeout, Duration};

    fn record_for(key: &Key, byte: u8) -> Record {
        Record {
            key: key.clone(),
            value: vec![byte; 64],
            publisher: None,
            expires: None,
        }
    }

    /// Wait until the store reports `key` as written (the command the swarm driver turns into
    /// `mark_as_stored`); false if that does not happen within 3 seconds.
    async fn written(rx: &mut mpsc::Receiver<LocalSwarmCmd>, key: &Key) -> bool {
        loop {
            match timeout(Duration::from_secs(3), rx.recv()).await {
                Ok(Some(LocalSwarmCmd::AddLocalRecordAsStored { key: k, .. })) if &k == key => {
                    return true
                }
                Ok(Some(_other)) => continue,
                Ok(None) | Err(_) => return false,
            }
        }
    }

    #[tokio::test]
    async fn record_refused_with_max_records_is_not_kept_and_can_be_stored_later() {
        let storage_dir = std::env::temp_dir().join(uuid::Uuid::new_v4().to_string());
        fs::create_dir_all(&storage_dir).expect("create storage dir");
        let config = NodeRecordStoreConfig {
            max_records: 1,
            storage_dir: storage_dir.clone(),
            ..Default::default()
        };
        let self_id = PeerId::random();
        let self_addr = NetworkAddress::from_peer(self_id);
        let (network_event_sender, _network_event_rx) = mpsc::channel(10);
        let (swarm_cmd_sender, mut swarm_cmd_rx) = mpsc::channel(10);
        let mut store =
            NodeRecordStore::with_config(self_id, config, network_event_sender, swarm_cmd_sender);

        // two keys, `near` closer to us than `far`
        let k1 = NetworkAddress::from_peer(PeerId::random()).to_record_key();
        let k2 = NetworkAddress::from_peer(PeerId::random()).to_record_key();
        let d = |k: &Key| self_addr.distance(&NetworkAddress::from_record_key(k));
        let (near, far) = if d(&k1) < d(&k2) { (k1, k2) } else { (k2, k1) };

        // A (near) fills the store (max_records = 1)
        let rec_a = record_for(&near, 0xAA);
        assert!(store.put_verified(rec_a, RecordType::Chunk).is_ok());
        assert!(written(&mut swarm_cmd_rx, &near).await, "A is written");
        store.mark_as_stored(near.clone(), RecordType::Chunk);

        // B (far) is refused: the store is full and B is farther than everything held
        let rec_b = record_for(&far, 0xBB);
        let res = store.put_verified(rec_b.clone(), RecordType::Chunk);
        assert!(matches!(res, Err(Error::MaxRecords)), "B must be refused, got {res:?}");

        // (1) a refused record must not be served
        let served = store.get(&far).map(|r| r.into_owned());
        let refused_record_is_served = served.is_some();

        // space is freed
        store.remove(&near);
        assert!(!store.contains(&near));

        // B is delivered again and accepted this time ...
        let res = store.put_verified(rec_b, RecordType::Chunk);
        assert!(res.is_ok(), "B must be accepted now, got {res:?}");

        // (2) ... so it has to be written and reported as stored
        let reported = written(&mut swarm_cmd_rx, &far).await;
        let file_path = storage_dir.join(NodeRecordStore::generate_filename(&far));
        let on_disk = file_path.exists();
        let _ = fs::remove_dir_all(&storage_dir);

        assert!(
            !refused_record_is_served && reported && on_disk,
            "refused record served by get(): {refused_record_is_served}; \
             accepted record reported with AddLocalRecordAsStored: {reported}; \
             accepted record written to disk: {on_disk}"
        );
    }
}
