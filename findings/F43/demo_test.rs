// Appended at the end of ant-networking/src/event/kad.rs

#[cfg(test)]
mod c05_finding2_tests {
    use super::*;
    use crate::{cmd::NetworkSwarmCmd, NetworkBuilder};
    use libp2p::{
        identity::Keypair,
        kad::{Quorum, RecordKey},
        PeerId,
    };
    use std::num::NonZeroUsize;

    type Rx = oneshot::Receiver<std::result::Result<Record, GetRecordError>>;

    fn cfg(get_quorum: Quorum, target_record: Option<Record>) -> GetRecordCfg {
        GetRecordCfg {
            get_quorum,
            retry_strategy: None,
            target_record,
            expected_holders: Default::default(),
            is_register: false,
        }
    }

    /// What `Network::get_record_from_network` does for one attempt: hand the real driver a
    /// `GetNetworkRecord` command and keep the receiving end of the result channel.
    fn call_get(driver: &mut SwarmDriver, key: &RecordKey, cfg: GetRecordCfg) -> Rx {
        let (sender, receiver) = oneshot::channel();
        driver
            .handle_network_cmd(NetworkSwarmCmd::GetNetworkRecord {
                key: key.clone(),
                sender,
                cfg,
            })
            .expect("GetNetworkRecord is accepted");
        receiver
    }

    /// The kad queries the driver currently has in flight for `key`.
    fn queries_for(driver: &SwarmDriver, key: &RecordKey) -> Vec<QueryId> {
        driver
            .pending_get_record
            .iter()
            .filter(|(_, (k, ..))| k == key)
            .map(|(id, _)| *id)
            .collect()
    }

    /// A kad `FoundRecord` progress event: `peer` answered the query with `record`.
    fn found(id: QueryId, peer: PeerId, record: &Record, count: usize) -> kad::Event {
        kad::Event::OutboundQueryProgressed {
            id,
            result: QueryResult::GetRecord(Ok(kad::GetRecordOk::FoundRecord(PeerRecord {
                peer: Some(peer),
                record: record.clone(),
            }))),
            stats: QueryStats::empty(),
            step: ProgressStep {
                count: NonZeroUsize::new(count).expect("non zero"),
                last: false,
            },
        }
    }

    // Finding 2: when one waiting caller has gone away (its receiver was dropped), the remaining
    // callers for the same key receive nothing at all on their result channel.
    #[tokio::test]
    async fn c05_every_waiting_caller_gets_the_outcome_even_if_another_caller_left() {
        let (_network, _events, mut driver) =
            NetworkBuilder::new(Keypair::generate_ed25519(), false)
                .build_client()
                .expect("client driver");

        let key = RecordKey::new(b"c05 key");
        let record = Record::new(key.clone(), b"the content".to_vec());

        let rx_a = call_get(&mut driver, &key, cfg(Quorum::One, None));
        let mut rx_b = call_get(&mut driver, &key, cfg(Quorum::One, None));
        let mut rx_c = call_get(&mut driver, &key, cfg(Quorum::One, None));
        let queries = queries_for(&driver, &key);

        // Caller A is cancelled (its future is dropped, e.g. by a timeout or select!).
        drop(rx_a);

        // One peer answers; quorum One is reached.
        let peer = PeerId::random();
        let mut handled = Vec::new();
        for query_id in &queries {
            handled.push(driver.handle_kad_event(found(*query_id, peer, &record, 1)));
        }

        let outcome_b = rx_b.try_recv();
        let outcome_c = rx_c.try_recv();
        assert!(
            matches!(&outcome_b, Ok(Ok(r)) if *r == record)
                && matches!(&outcome_c, Ok(Ok(r)) if *r == record),
            "quorum was reached but waiting callers were not told: B got {outcome_b:?}, C got {outcome_c:?}, handler returned {handled:?}, queries still pending for the key: {}",
            queries_for(&driver, &key).len(),
        );
    }
}
