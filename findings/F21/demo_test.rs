// F21 demonstration: append to the end of ant-node-manager/src/add_services/tests.rs and run
//   USER=root cargo test -p ant-node-manager --offline --lib f21_
mod f21_demo {
    use super::*;

    fn evm() -> EvmNetwork {
        EvmNetwork::Custom(CustomNetwork {
            rpc_url_http: "http://localhost:8545".parse().unwrap(),
            payment_token_address: RewardsAddress::from_str(
                "0x5FbDB2315678afecb367f032d93F642f64180aa3",
            )
            .unwrap(),
            data_payments_address: RewardsAddress::from_str(
                "0x8464135c8F25Da09e49BC8782676a84730C318bC",
            )
            .unwrap(),
        })
    }

    fn rewards() -> RewardsAddress {
        RewardsAddress::from_str("0x03B770D9cD32077cC0bF330c13C114a87643B124").unwrap()
    }

    fn recorded_service(
        data_root: &Path,
        logs_root: &Path,
        number: u16,
        rpc_port: u16,
        status: ServiceStatus,
    ) -> NodeServiceData {
        let name = format!("antnode{number}");
        NodeServiceData {
            antnode_path: data_root.join(&name).join(ANTNODE_FILE_NAME),
            auto_restart: false,
            connected_peers: None,
            data_dir_path: data_root.join(&name),
            evm_network: evm(),
            home_network: false,
            listen_addr: None,
            log_dir_path: logs_root.join(&name),
            log_format: None,
            max_archived_log_files: None,
            max_log_files: None,
            metrics_port: None,
            network_id: None,
            node_ip: None,
            node_port: None,
            number,
            owner: None,
            peer_id: None,
            peers_args: PeersArgs::default(),
            pid: None,
            rewards_address: rewards(),
            reward_balance: Some(AttoTokens::zero()),
            rpc_socket_addr: SocketAddr::new(IpAddr::V4(Ipv4Addr::new(127, 0, 0, 1)), rpc_port),
            service_name: name,
            status,
            upnp: false,
            user: None,
            user_mode: false,
            version: "0.98.1".to_string(),
        }
    }


    fn options(temp_dir: &assert_fs::TempDir, src: &Path, data: &Path, logs: &Path, count: Option<u16>) -> AddNodeServiceOptions {
        AddNodeServiceOptions {
            auto_restart: false, auto_set_nat_flags: false, count, delete_antnode_src: false, enable_metrics_server: false,
            env_variables: None, home_network: false, log_format: None, max_archived_log_files: None, max_log_files: None,
            metrics_port: None, network_id: None, node_ip: None, node_port: None, owner: None, peers_args: PeersArgs::default(),
            rpc_address: None, rpc_port: None, antnode_dir_path: temp_dir.to_path_buf(), antnode_src_path: src.to_path_buf(),
            service_data_dir_path: data.to_path_buf(), service_log_dir_path: logs.to_path_buf(), upnp: false, user: None,
            user_mode: false, version: "0.96.4".to_string(), evm_network: evm(), rewards_address: rewards(),
        }
    }

    // F21 (C19): "An added service never receives a name or data directory already recorded for another service."
    // One `add` of two services in which the service manager fails to install the first (antnode2) and installs the second
    // (antnode3) leaves the registry with antnode1, antnode3; the next `add` numbers from the registry LENGTH and hands out
    // antnode3 again.
    #[tokio::test]
    async fn f21_add_after_a_partly_failed_add_reuses_a_recorded_name() -> Result<()> {
        let tmp_data_dir = assert_fs::TempDir::new()?;
        let node_reg_path = tmp_data_dir.child("node_reg.json");
        let temp_dir = assert_fs::TempDir::new()?;
        let node_data_dir = temp_dir.child("data");
        node_data_dir.create_dir_all()?;
        let node_logs_dir = temp_dir.child("logs");
        node_logs_dir.create_dir_all()?;
        let antnode_download_path = temp_dir.child(ANTNODE_FILE_NAME);
        antnode_download_path.write_binary(b"fake antnode bin")?;

        let mut node_registry = NodeRegistry {
            auditor: None, daemon: None, environment_variables: None, faucet: None, nat_status: None,
            nodes: vec![recorded_service(node_data_dir.path(), node_logs_dir.path(), 1, 8081, ServiceStatus::Added)],
            save_path: node_reg_path.to_path_buf(),
        };

        let mut mock_service_control = MockServiceControl::new();
        let mut port = 15000u16;
        mock_service_control.expect_get_available_port().returning(move || { port += 1; Ok(port) });
        let mut seq = Sequence::new();
        // first add: antnode2 cannot be installed, antnode3 can
        mock_service_control.expect_install().times(1).in_sequence(&mut seq)
            .returning(|_, _| Err(ant_service_management::Error::ServiceUserAccountCreationFailed));
        mock_service_control.expect_install().times(1).in_sequence(&mut seq).returning(|_, _| Ok(()));
        // second add
        mock_service_control.expect_install().times(1).in_sequence(&mut seq).returning(|_, _| Ok(()));

        let _ = add_node(
            options(&temp_dir, antnode_download_path.path(), node_data_dir.path(), node_logs_dir.path(), Some(2)),
            &mut node_registry, &mock_service_control, VerbosityLevel::Minimal,
        ).await;
        let names: Vec<String> = node_registry.nodes.iter().map(|n| n.service_name.clone()).collect();
        assert_eq!(names, vec!["antnode1", "antnode3"], "state after the partly failed add");

        let _ = add_node(
            options(&temp_dir, antnode_download_path.path(), node_data_dir.path(), node_logs_dir.path(), None),
            &mut node_registry, &mock_service_control, VerbosityLevel::Minimal,
        ).await;

        let n = node_registry.nodes.len();
        for i in 0..n {
            for j in (i + 1)..n {
                assert_ne!(node_registry.nodes[i].service_name, node_registry.nodes[j].service_name,
                    "two recorded services share a name");
                assert_ne!(node_registry.nodes[i].data_dir_path, node_registry.nodes[j].data_dir_path,
                    "two recorded services share a data directory");
            }
        }
        Ok(())
    }
}
