    // C19 (second audit), finding 1.
    //
    // History: the service is recorded as Running with PID 1000 and its process is alive. `stop` is
    // called and the ONE fault of this history is placed on the process probe that `stop` makes
    // (`ServiceControl::get_process_pid` returns an error that is not `ServiceProcessNotFound`).
    //
    // The property: "a successful stop or removal leaves no process and no recorded PID".
    // So `stop` may fail, but if it returns Ok the process must be gone.
    #[tokio::test]
    async fn c19_successful_stop_leaves_no_process_when_the_process_probe_fails() -> Result<()> {
        use std::sync::{
            atomic::{AtomicBool, AtomicUsize, Ordering},
            Arc,
        };

        // The simulated OS: one process, launched from the service binary, alive.
        let process_alive = Arc::new(AtomicBool::new(true));
        let probes = Arc::new(AtomicUsize::new(0));

        let mut mock_service_control = MockServiceControl::new();
        {
            let process_alive = process_alive.clone();
            let probes = probes.clone();
            mock_service_control
                .expect_get_process_pid()
                .with(eq(PathBuf::from("/var/antctl/services/antnode1/antnode")))
                .returning(move |path| {
                    if probes.fetch_add(1, Ordering::SeqCst) == 0 {
                        // the injected fault: the probe itself fails, it does not say "not found"
                        return Err(ServiceControlError::Io(std::io::Error::other(
                            "could not read the process table",
                        )));
                    }
                    if process_alive.load(Ordering::SeqCst) {
                        Ok(1000)
                    } else {
                        Err(ServiceControlError::ServiceProcessNotFound(
                            path.to_string_lossy().to_string(),
                        ))
                    }
                });
        }
        {
            // Stopping the service through the service manager is the only thing that ends the process.
            let process_alive = process_alive.clone();
            mock_service_control
                .expect_stop()
                .with(eq("antnode1"), eq(false))
                .returning(move |_, _| {
                    process_alive.store(false, Ordering::SeqCst);
                    Ok(())
                });
        }

        let mut service_data = NodeServiceData {
            auto_restart: false,
            connected_peers: None,
            data_dir_path: PathBuf::from("/var/antctl/services/antnode1"),
            evm_network: EvmNetwork::Custom(CustomNetwork {
                rpc_url_http: "http://localhost:8545".parse()?,
                payment_token_address: RewardsAddress::from_str(
                    "0x5FbDB2315678afecb367f032d93F642f64180aa3",
                )?,
                data_payments_address: RewardsAddress::from_str(
                    "0x8464135c8F25Da09e49BC8782676a84730C318bC",
                )?,
            }),
            home_network: false,
            listen_addr: None,
            log_dir_path: PathBuf::from("/var/log/antnode/antnode1"),
            log_format: None,
            max_archived_log_files: None,
            max_log_files: None,
            metrics_port: None,
            network_id: None,
            node_ip: None,
            node_port: None,
            number: 1,
            owner: None,
            peer_id: Some(PeerId::from_str(
                "12D3KooWS2tpXGGTmg2AHFiDh57yPQnat49YHnyqoggzXZWpqkCR",
            )?),
            peers_args: PeersArgs::default(),
            pid: Some(1000),
            rewards_address: RewardsAddress::from_str(
                "0x03B770D9cD32077cC0bF330c13C114a87643B124",
            )?,
            reward_balance: Some(AttoTokens::zero()),
            rpc_socket_addr: SocketAddr::new(IpAddr::V4(Ipv4Addr::new(127, 0, 0, 1)), 8081),
            antnode_path: PathBuf::from("/var/antctl/services/antnode1/antnode"),
            service_name: "antnode1".to_string(),
            status: ServiceStatus::Running,
            upnp: false,
            user: Some("ant".to_string()),
            user_mode: false,
            version: "0.98.1".to_string(),
        };
        let service = NodeService::new(&mut service_data, Box::new(MockRpcClient::new()));
        let mut service_manager = ServiceManager::new(
            service,
            Box::new(mock_service_control),
            VerbosityLevel::Normal,
        );

        let result = service_manager.stop().await;

        let recorded_status = service_manager.service.service_data.status.clone();
        let recorded_pid = service_manager.service.service_data.pid;
        let alive = process_alive.load(Ordering::SeqCst);
        println!(
            "stop returned {result:?}; recorded status {recorded_status:?}, recorded pid \
             {recorded_pid:?}; process 1000 alive: {alive}"
        );

        if result.is_ok() {
            assert!(
                !alive,
                "stop returned Ok and recorded {recorded_status:?}/pid {recorded_pid:?}, but the \
                 process with PID 1000 is still alive: the service manager was never asked to stop it"
            );
        } else {
            // A refused stop must leave the record as it was: Running, PID 1000, process alive.
            assert_matches!(recorded_status, ServiceStatus::Running);
            assert_eq!(recorded_pid, Some(1000));
            assert!(alive);
        }
        Ok(())
    }
