// Added inside the existing `#[cfg(test)] mod tests { use super::*; ... }` at the end of ant-networking/src/lib.rs

    // C05 finding 3: two validly signed scratchpads with the SAME (highest) counter but different
    // content. The split-record merge must not depend on anything but the set of versions.
    #[test]
    fn c05_split_scratchpad_with_equal_counters_is_resolved_deterministically() -> eyre::Result<()> {
        let owner_sk = bls::SecretKey::random();
        let fresh = Scratchpad::new(owner_sk.public_key(), 0);

        // The owner updates the same scratchpad (count 0 -> 1) from two devices.
        let mut pad_x = fresh.clone();
        let _ = pad_x.update_and_sign(bytes::Bytes::from("written by device X"), &owner_sk);
        let mut pad_y = fresh.clone();
        let _ = pad_y.update_and_sign(bytes::Bytes::from("written by device Y"), &owner_sk);
        assert!(pad_x.is_valid() && pad_y.is_valid());
        assert_eq!(pad_x.count(), pad_y.count());
        assert_ne!(pad_x.encrypted_data(), pad_y.encrypted_data());

        let key = NetworkAddress::from_scratchpad_address(*pad_x.address()).to_record_key();
        let as_record = |pad: &Scratchpad| -> eyre::Result<Record> {
            Ok(Record {
                key: key.clone(),
                value: try_serialize_record(pad, RecordKind::Scratchpad)?.to_vec(),
                publisher: None,
                expires: None,
            })
        };
        let (rec_x, rec_y) = (as_record(&pad_x)?, as_record(&pad_y)?);
        let (peer_x, peer_y) = (PeerId::random(), PeerId::random());

        // The same two replies, over and over. The driver builds a fresh `result_map`
        // (`Default::default()`) for every query, so do the same here.
        let mut picked = HashSet::new();
        for _ in 0..64 {
            let mut result_map: HashMap<XorName, (Record, HashSet<PeerId>)> = Default::default();
            let _ = result_map.insert(
                XorName::from_content(&rec_x.value),
                (rec_x.clone(), HashSet::from([peer_x])),
            );
            let _ = result_map.insert(
                XorName::from_content(&rec_y.value),
                (rec_y.clone(), HashSet::from([peer_y])),
            );
            match Network::handle_split_record_error(&result_map, &key)? {
                Some(record) if record.value == rec_x.value => {
                    let _ = picked.insert("X");
                }
                Some(record) if record.value == rec_y.value => {
                    let _ = picked.insert("Y");
                }
                Some(_) => {
                    let _ = picked.insert("something else");
                }
                None => {
                    let _ = picked.insert("None (caller gets SplitRecord with both versions)");
                }
            }
        }
        assert_eq!(
            picked.len(),
            1,
            "the same two peer replies were resolved to different values on different reads: {picked:?}"
        );
        Ok(())
    }
