// C09 finding 1 -- demonstration, two parts.
// Run:  CARGO_TARGET_DIR=/tmp/wt/C09hunt/target USER=root cargo test -p ant-node --offline --lib c09_neighbours_holding_different_versions
//       CARGO_TARGET_DIR=/tmp/wt/C09hunt/target USER=root cargo test -p ant-networking --offline --lib c09_held_key
// The harness block (imports, `TestNode`, `register_record`, `new_register`, `new_op`) is shared by the
// demonstrations of findings 1, 2 and 3: when several of them are added to the same file it is added once.

// ===== Part 1: appended inside `mod tests` of ant-node/src/node.rs (before its closing brace) =====

    // ------------------------------------------------------------------------------------------
    // C09 demonstrations: real nodes, wired together in-process over the loopback interface.
    //
    // Every node is started with the production `NodeBuilder::build_and_run` (local mode, so that
    // loopback addresses are dialable). Records are put into a node's store through the node's own
    // acceptance functions (`store_chunk`, `store_replicated_in_record`, `validate_and_store_register`,
    // `validate_and_store_record`), replication is the node's own: the `PeerAdded` round that both
    // nodes run when they connect, and further rounds asked for with `trigger_interval_replication`.
    // ------------------------------------------------------------------------------------------
    use ant_protocol::storage::{
        try_deserialize_record, try_serialize_record, Chunk, RecordKind, Scratchpad, Transaction,
    };
    use ant_registers::{Permissions, Register, RegisterCrdt, RegisterOp, SignedRegister};
    use libp2p::kad::{Record, RecordKey};
    use libp2p::multiaddr::Protocol;
    use std::collections::BTreeSet;
    use xor_name::XorName;

    struct TestNode {
        node: Node,
        addr: Multiaddr,
        _root: tempfile::TempDir,
    }

    impl TestNode {
        async fn start() -> Self {
            let root = tempfile::tempdir().expect("temp dir");
            let running = NodeBuilder::new(
                Keypair::generate_ed25519(),
                RewardsAddress::default(),
                EvmNetwork::default(),
                "127.0.0.1:0".parse().expect("socket addr"),
                true,
                root.path().to_path_buf(),
                #[cfg(feature = "upnp")]
                false,
            )
            .build_and_run()
            .expect("node starts");

            // A handle on the very same running node (same `Network`), to be able to call the
            // node's record acceptance functions.
            let node = Node {
                inner: Arc::new(NodeInner {
                    events_channel: running.node_events_channel.clone(),
                    initial_peers: vec![],
                    network: running.network.clone(),
                    #[cfg(feature = "open-metrics")]
                    metrics_recorder: None,
                    reward_address: RewardsAddress::default(),
                    evm_network: EvmNetwork::default(),
                }),
            };

            let peer_id = node.network().peer_id();
            let addr = loop {
                let state = node
                    .network()
                    .get_swarm_local_state()
                    .await
                    .expect("swarm state");
                if let Some(addr) = state.listeners.first() {
                    let mut addr = addr.clone();
                    if addr.iter().last() != Some(Protocol::P2p(peer_id)) {
                        addr.push(Protocol::P2p(peer_id));
                    }
                    break addr;
                }
                tokio::time::sleep(Duration::from_millis(100)).await;
            };

            Self {
                node,
                addr,
                _root: root,
            }
        }

        async fn holds(&self, key: &RecordKey) -> bool {
            self.node
                .network()
                .is_record_key_present_locally(key)
                .await
                .expect("store query")
        }

        async fn wait_until_holds(&self, key: &RecordKey, secs: u64) -> bool {
            for _ in 0..secs * 10 {
                if self.holds(key).await {
                    return true;
                }
                tokio::time::sleep(Duration::from_millis(100)).await;
            }
            false
        }

        async fn bytes_of(&self, key: &RecordKey) -> Option<Vec<u8>> {
            self.node
                .network()
                .get_local_record(key)
                .await
                .expect("store query")
                .map(|r| r.value)
        }
    }

    fn register_record(reg: &SignedRegister) -> Record {
        Record {
            key: NetworkAddress::from_register_address(*reg.address()).to_record_key(),
            value: try_serialize_record(reg, RecordKind::Register)
                .expect("serialise")
                .to_vec(),
            publisher: None,
            expires: None,
        }
    }

    fn new_register(owner: &bls::SecretKey) -> SignedRegister {
        let base = Register::new(
            owner.public_key(),
            XorName::random(&mut thread_rng()),
            Permissions::default(),
        );
        let signature = owner.sign(base.bytes().expect("register bytes"));
        SignedRegister::new(base, signature, BTreeSet::new())
    }

    // An op as a writer's replica produces it: a new root entry holding `value`.
    fn new_op(reg: &SignedRegister, value: Vec<u8>, writer: &bls::SecretKey) -> RegisterOp {
        let mut crdt = RegisterCrdt::new(*reg.address());
        let (_hash, address, crdt_op) = crdt.write(value, &BTreeSet::new()).expect("crdt write");
        RegisterOp::new(address, crdt_op, writer)
    }

    /// Property: "When neighbours hold different versions of a mutable record, periodic replication
    /// makes them converge: after enough rounds both hold the same merged register or transaction
    /// set, and the scratchpad with the highest counter."
    #[tokio::test(flavor = "multi_thread", worker_threads = 4)]
    async fn c09_neighbours_holding_different_versions_converge_through_replication() {
        let a = TestNode::start().await;
        let b = TestNode::start().await;

        let owner = bls::SecretKey::random();

        // control: an immutable chunk that only A holds
        let chunk = Chunk::new(Bytes::from_static(b"c09 control chunk, held by A only"));
        let chunk_key = chunk.network_address().to_record_key();
        a.node.store_chunk(&chunk).expect("A stores the chunk");

        // register: both nodes got the register with op1; the update carrying op2 reached A only
        let mut reg_old = new_register(&owner);
        let op1 = new_op(&reg_old, b"first entry".to_vec(), &owner);
        let op2 = new_op(&reg_old, b"second entry".to_vec(), &owner);
        reg_old.add_op(op1).expect("op1");
        let mut reg_new = reg_old.clone();
        reg_new.add_op(op2).expect("op2");
        let reg_key = register_record(&reg_old).key;
        a.node
            .store_replicated_in_record(register_record(&reg_new))
            .await
            .expect("A accepts the register with op1 and op2");
        b.node
            .store_replicated_in_record(register_record(&reg_old))
            .await
            .expect("B accepts the register with op1");

        // transactions: the owner issued two transactions; A got one, B the other
        let tx_owner = bls::SecretKey::random();
        let tx1 = Transaction::new(tx_owner.public_key(), vec![], [1u8; 32], vec![], &tx_owner);
        let tx2 = Transaction::new(tx_owner.public_key(), vec![], [2u8; 32], vec![], &tx_owner);
        let tx_key = NetworkAddress::from_transaction_address(tx1.address()).to_record_key();
        a.node
            .validate_merge_and_store_transactions(vec![tx1], &tx_key)
            .await
            .expect("A accepts tx1");
        b.node
            .validate_merge_and_store_transactions(vec![tx2], &tx_key)
            .await
            .expect("B accepts tx2");

        // scratchpad: B holds counter 1, A holds the update with counter 2
        let pad_owner = bls::SecretKey::random();
        let mut pad = Scratchpad::new(pad_owner.public_key(), 0);
        let _ = pad.update_and_sign(Bytes::from_static(b"version one"), &pad_owner);
        let pad_v1 = pad.clone();
        let _ = pad.update_and_sign(Bytes::from_static(b"version two"), &pad_owner);
        let pad_v2 = pad;
        assert_eq!((pad_v1.count(), pad_v2.count()), (1, 2));
        let pad_key = pad_v1.network_address().to_record_key();
        b.node
            .validate_and_store_scratchpad_record(pad_v1, pad_key.clone(), false)
            .await
            .expect("B accepts the scratchpad with counter 1");
        a.node
            .validate_and_store_scratchpad_record(pad_v2, pad_key.clone(), false)
            .await
            .expect("A accepts the scratchpad with counter 2");

        // everything is written and indexed before the two nodes meet
        for key in [&chunk_key, &reg_key, &tx_key, &pad_key] {
            assert!(a.wait_until_holds(key, 10).await, "A indexed its records");
        }
        for key in [&reg_key, &tx_key, &pad_key] {
            assert!(b.wait_until_holds(key, 10).await, "B indexed its records");
        }

        // The two nodes become neighbours. Each adds the other to its routing table, which
        // makes each of them run a replication round (`PeerAdded`) carrying all its records.
        b.node
            .network()
            .dial(a.addr.clone())
            .await
            .expect("B dials A");

        // control: the exchange works, B fetched the chunk it did not have
        assert!(
            b.wait_until_holds(&chunk_key, 30).await,
            "control failed: B did not even fetch the chunk that only A holds"
        );
        assert_eq!(
            a.bytes_of(&chunk_key).await,
            b.bytes_of(&chunk_key).await,
            "control failed: chunk copies differ"
        );

        // A second full round in both directions, once the per-peer back-off (45s) and the
        // minimum interval (30s) of `try_interval_replication` have passed.
        tokio::time::sleep(Duration::from_secs(47)).await;
        a.node.network().trigger_interval_replication();
        b.node.network().trigger_interval_replication();
        tokio::time::sleep(Duration::from_secs(10)).await;

        let mut diverged = vec![];

        let (reg_a, reg_b) = (a.bytes_of(&reg_key).await, b.bytes_of(&reg_key).await);
        if reg_a != reg_b {
            let ops = |bytes: &Option<Vec<u8>>| {
                let record = Record::new(reg_key.clone(), bytes.clone().unwrap_or_default());
                try_deserialize_record::<SignedRegister>(&record)
                    .map(|r| r.ops().len())
                    .ok()
            };
            diverged.push(format!(
                "register: A holds {:?} ops, B holds {:?} ops",
                ops(&reg_a),
                ops(&reg_b)
            ));
        }

        let (tx_a, tx_b) = (a.bytes_of(&tx_key).await, b.bytes_of(&tx_key).await);
        if tx_a != tx_b {
            let txs = |bytes: &Option<Vec<u8>>| {
                let record = Record::new(tx_key.clone(), bytes.clone().unwrap_or_default());
                try_deserialize_record::<Vec<Transaction>>(&record)
                    .map(|t| t.iter().map(|t| t.content[0]).collect::<Vec<_>>())
                    .ok()
            };
            diverged.push(format!(
                "transaction set: A holds {:?}, B holds {:?}",
                txs(&tx_a),
                txs(&tx_b)
            ));
        }

        let (pad_a, pad_b) = (a.bytes_of(&pad_key).await, b.bytes_of(&pad_key).await);
        if pad_a != pad_b {
            let count = |bytes: &Option<Vec<u8>>| {
                let record = Record::new(pad_key.clone(), bytes.clone().unwrap_or_default());
                try_deserialize_record::<Scratchpad>(&record)
                    .map(|p| p.count())
                    .ok()
            };
            diverged.push(format!(
                "scratchpad: A holds counter {:?}, B holds counter {:?}",
                count(&pad_a),
                count(&pad_b)
            ));
        }

        assert!(
            diverged.is_empty(),
            "after two full replication rounds in both directions the neighbours still hold \
             different versions: {diverged:#?}"
        );
    }

// ===== Part 2: appended inside `mod tests` of ant-networking/src/replication_fetcher.rs (before its closing brace) =====

    // C09: an advertised (key, version) whose version differs from the one held locally has to be
    // fetched ("2, For those transactions that we have that differ in the hash, we fetch the other
    // version and update our local copy" says the caller, `add_keys_to_replication_fetcher`).
    #[test]
    fn c09_held_key_advertised_in_another_version_is_fetched() {
        let (event_sender, _event_receiver) = mpsc::channel(4);
        let mut replication_fetcher = ReplicationFetcher::new(PeerId::random(), event_sender);

        let random_key = || {
            let random_data: Vec<u8> = (0..50).map(|_| rand::random::<u8>()).collect();
            RecordKey::from(random_data)
        };

        // we hold a register (or transaction set) whose content hashes to `local_version`
        let key = random_key();
        let addr = NetworkAddress::from_record_key(&key);
        let local_version = RecordType::NonChunk(xor_name::XorName::from_content(b"ops {1}"));
        let remote_version = RecordType::NonChunk(xor_name::XorName::from_content(b"ops {1, 2}"));
        let mut locally_stored_keys = HashMap::new();
        let _ = locally_stored_keys.insert(key.clone(), (addr.clone(), local_version));

        // a neighbour's periodic advertisement: the same key in another version, and a chunk we lack
        let holder = PeerId::random();
        let chunk_key = random_key();
        let incoming_keys = vec![
            (addr, remote_version),
            (NetworkAddress::from_record_key(&chunk_key), RecordType::Chunk),
        ];
        let keys_to_fetch = replication_fetcher.add_keys(holder, incoming_keys, &locally_stored_keys);

        assert!(
            keys_to_fetch.contains(&(holder, chunk_key)),
            "control: the key we do not hold is fetched"
        );
        assert!(
            keys_to_fetch.contains(&(holder, key)),
            "the key we hold in a different version is neither fetched nor queued: {keys_to_fetch:?}, queue {:?}",
            replication_fetcher.to_be_fetched
        );
    }
