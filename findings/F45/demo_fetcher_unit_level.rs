    // C08 second audit, finding 1.
    //
    // The node holds record K in version `held` (RecordType::NonChunk(h1)); a responsive neighbour
    // holds and advertises K in version `advertised` (RecordType::NonChunk(h2)) - a register that was
    // updated there, a transaction that was double spent there.
    // Whether the fetcher takes (K, h2) for "a record the node does not already hold" must be a
    // function of what the node holds and what is advertised. It is not:
    //   * history X: the advertisement is queued while the fetcher is busy, THEN K(h1) gets stored.
    //     `remove_stored_keys` / `notify_about_new_put` compare the version, keep the entry, and the
    //     divergent version is fetched.
    //   * history Y: K(h1) is stored, THEN the very same advertisement arrives - any number of times,
    //     as a periodic multi-record list or as a fresh single-record replicate. The entry filter of
    //     `add_keys` compares the key only and drops it: it is never queued and never fetched.
    #[tokio::test]
    async fn c08_divergent_version_of_a_held_key_is_fetched_no_matter_when_it_is_advertised() {
        use xor_name::XorName;

        fn random_chunk() -> (NetworkAddress, RecordType) {
            let random_data: Vec<u8> = (0..50).map(|_| rand::random::<u8>()).collect();
            (
                NetworkAddress::from_record_key(&RecordKey::from(random_data)),
                RecordType::Chunk,
            )
        }

        let self_peer = PeerId::random();
        let holder = PeerId::random();
        let (event_sender, _event_receiver) = mpsc::channel(4);

        let (k_addr, _) = random_chunk();
        let k = k_addr.to_record_key();
        let held = RecordType::NonChunk(XorName::from_content(b"version the node holds"));
        let advertised =
            RecordType::NonChunk(XorName::from_content(b"version the neighbour holds"));
        let other = random_chunk();
        let advertisement = vec![(k_addr.clone(), advertised.clone()), other.clone()];

        // ---------------- history X: advertised first, K(h1) stored afterwards ----------------
        let mut fx = ReplicationFetcher::new(self_peer, event_sender.clone());
        let mut stored_x: HashMap<RecordKey, (NetworkAddress, RecordType)> = HashMap::new();

        // the fetcher is busy with MAX_PARALLEL_FETCH other records
        let busy: Vec<_> = (0..MAX_PARALLEL_FETCH).map(|_| random_chunk()).collect();
        let started = fx.add_keys(PeerId::random(), busy.clone(), &stored_x);
        assert_eq!(started.len(), MAX_PARALLEL_FETCH);

        // so the advertisement is queued
        assert!(fx
            .add_keys(holder, advertisement.clone(), &stored_x)
            .is_empty());

        // the node stores K in version `held` (a client PUT): PutLocalRecord notifies the fetcher,
        // and from now on the store lists K
        let mut fetched_x = fx.notify_about_new_put(k.clone(), held.clone());
        let _ = stored_x.insert(k.clone(), (k_addr.clone(), held.clone()));

        // another neighbour's list comes in: add_keys runs remove_stored_keys against the store,
        // which now has K(h1)
        fetched_x.extend(fx.add_keys(
            PeerId::random(),
            vec![random_chunk(), random_chunk()],
            &stored_x,
        ));

        // the busy fetches arrive one after the other
        for (addr, record_type) in &busy {
            let _ = stored_x.insert(
                addr.to_record_key(),
                (addr.clone(), record_type.clone()),
            );
            fetched_x.extend(fx.notify_about_new_put(addr.to_record_key(), record_type.clone()));
        }
        let fetched_in_x = fetched_x
            .iter()
            .any(|(from, key)| *from == holder && *key == k);

        // ---------------- history Y: K(h1) stored first, advertised afterwards ----------------
        let mut fy = ReplicationFetcher::new(self_peer, event_sender);
        let mut stored_y: HashMap<RecordKey, (NetworkAddress, RecordType)> = HashMap::new();
        let _ = stored_y.insert(k.clone(), (k_addr.clone(), held.clone()));

        let mut fetched_y = vec![];
        let mut ever_queued_in_y = false;
        for _round in 0..10 {
            // periodic multi-record advertisement
            fetched_y.extend(fy.add_keys(holder, advertisement.clone(), &stored_y));
            // fresh single-record replicate of the updated version
            fetched_y.extend(fy.add_keys(
                holder,
                vec![(k_addr.clone(), advertised.clone())],
                &stored_y,
            ));
            ever_queued_in_y |= fy.to_be_fetched.keys().any(|(key, _, _)| *key == k);
            // whatever else got fetched arrives
            let _ = stored_y.insert(other.0.to_record_key(), other.clone());
            let _ = fy.notify_about_new_put(other.0.to_record_key(), RecordType::Chunk);
        }
        let fetched_in_y = fetched_y
            .iter()
            .any(|(from, key)| *from == holder && *key == k);

        // the code's own position, taken by remove_stored_keys ("This checks the hash on transactions
        // to ensure we pull in divergent transactions") and by the caller ("For those transactions
        // that we have that differ in the hash, we fetch the other version"):
        assert!(
            fetched_in_x,
            "history X: the divergent version that was queued before K(h1) got stored is fetched"
        );
        // ... so a responsive holder that keeps advertising it must get it fetched in history Y too
        assert_eq!(
            (fetched_in_y, ever_queued_in_y),
            (fetched_in_x, true),
            "history Y: same store content, same advertisement (10 rounds, multi-record and single-record), \
             but (K, h2) was (fetched, ever queued) = left; history X = right"
        );
    }

