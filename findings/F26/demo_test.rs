
// ---- C08 hunt demo 1 -------------------------------------------------------
// Append this module to ant-networking/src/replication_fetcher.rs and run
//   cargo test -p ant-networking --offline --lib c08_hunt_demo_1
//
// A periodic multi-record advertisement of which the node already holds (or has already
// queued) all entries but one is handled by the "single fresh key" fast path of `add_keys`:
// the decision is taken on the length of the list AFTER the existence filter, not on the
// length of the advertisement. The surviving key is then scheduled immediately, skipping
// (a) the responsible-distance check and (b) the MAX_PARALLEL_FETCH limit.
#[cfg(test)]
mod c08_hunt_demo_1 {
    use super::{ReplicationFetcher, MAX_PARALLEL_FETCH};
    use ant_protocol::{convert_distance_to_u256, storage::RecordType, NetworkAddress};
    use libp2p::{kad::RecordKey, PeerId};
    use std::collections::HashMap;
    use tokio::sync::mpsc;

    // `n` random record addresses, sorted closest-first relative to `self_address`.
    fn sorted_random_addrs(self_address: &NetworkAddress, n: usize) -> Vec<NetworkAddress> {
        let mut addrs: Vec<NetworkAddress> = (0..n)
            .map(|_| {
                let random_data: Vec<u8> = (0..50).map(|_| rand::random::<u8>()).collect();
                NetworkAddress::from_record_key(&RecordKey::from(random_data))
            })
            .collect();
        addrs.sort_by_key(|a| self_address.distance(a));
        addrs
    }

    /// Property clause: "records taken from periodic multi-record advertisements must also lie
    /// within its responsible distance".
    #[test]
    fn c08_hunt_demo_1_multi_key_advert_fetches_out_of_range_record() {
        let self_peer = PeerId::random();
        let self_address = NetworkAddress::from_peer(self_peer);
        let (event_sender, _event_receiver) = mpsc::channel(4);
        let mut fetcher = ReplicationFetcher::new(self_peer, event_sender);

        let addrs = sorted_random_addrs(&self_address, 50);
        // Responsible distance: up to the 11th closest address.
        let range = convert_distance_to_u256(&self_address.distance(&addrs[10]));
        fetcher.set_replication_distance_range(range);

        let held = addrs[0].clone(); // in range, the node already holds it
        let far_a = addrs[40].clone(); // clearly out of range
        let far_b = addrs[41].clone(); // clearly out of range
        assert!(convert_distance_to_u256(&self_address.distance(&far_a)) > range);
        assert!(convert_distance_to_u256(&self_address.distance(&far_b)) > range);

        let mut locally_stored = HashMap::new();
        let _ = locally_stored.insert(held.to_record_key(), (held.clone(), RecordType::Chunk));

        // Control: a two-record periodic advertisement of two out-of-range records: the range
        // filter applies, nothing is fetched, nothing is queued.
        let holder_1 = PeerId::random();
        let fetched = fetcher.add_keys(
            holder_1,
            vec![
                (far_a.clone(), RecordType::Chunk),
                (far_b.clone(), RecordType::Chunk),
            ],
            &locally_stored,
        );
        assert!(fetched.is_empty(), "control: out of range records are not fetched");
        assert!(fetcher.to_be_fetched.is_empty());
        assert!(fetcher.on_going_fetches.is_empty());

        // A two-record periodic advertisement: one record the node already holds, plus the very
        // same out-of-range record as above.
        let holder_2 = PeerId::random();
        let fetched = fetcher.add_keys(
            holder_2,
            vec![
                (held.clone(), RecordType::Chunk),
                (far_a.clone(), RecordType::Chunk),
            ],
            &locally_stored,
        );

        for (_holder, key) in &fetched {
            let addr = NetworkAddress::from_record_key(key);
            assert!(
                convert_distance_to_u256(&self_address.distance(&addr)) <= range,
                "record {addr:?} taken from a 2-record periodic advertisement was scheduled \
                 although it lies outside the responsible distance"
            );
        }
    }

    /// Property clause: "never lets batch scheduling exceed the parallel-fetch limit".
    #[test]
    fn c08_hunt_demo_1_multi_key_advert_exceeds_parallel_fetch_limit() {
        let self_peer = PeerId::random();
        let self_address = NetworkAddress::from_peer(self_peer);
        let (event_sender, _event_receiver) = mpsc::channel(4);
        let mut fetcher = ReplicationFetcher::new(self_peer, event_sender);
        let locally_stored = HashMap::new();

        let addrs = sorted_random_addrs(&self_address, 3 * MAX_PARALLEL_FETCH);

        // First periodic advertisement from `holder`: 2 * MAX records.
        // MAX of them get scheduled, the other MAX stay queued for this holder.
        let holder = PeerId::random();
        let first_list: Vec<_> = addrs[..2 * MAX_PARALLEL_FETCH]
            .iter()
            .map(|a| (a.clone(), RecordType::Chunk))
            .collect();
        let fetched = fetcher.add_keys(holder, first_list, &locally_stored);
        assert_eq!(fetched.len(), MAX_PARALLEL_FETCH);
        assert_eq!(fetcher.on_going_fetches.len(), MAX_PARALLEL_FETCH);
        assert_eq!(fetcher.to_be_fetched.len(), MAX_PARALLEL_FETCH);

        // Next periodic advertisement from the same holder, while nothing has completed yet:
        // the MAX records that are still queued, plus ONE more record (MAX + 1 entries).
        let mut second_list: Vec<_> = fetcher
            .to_be_fetched
            .keys()
            .map(|(key, t, _)| (NetworkAddress::from_record_key(key), t.clone()))
            .collect();
        second_list.push((addrs[2 * MAX_PARALLEL_FETCH].clone(), RecordType::Chunk));
        assert_eq!(second_list.len(), MAX_PARALLEL_FETCH + 1);

        let fetched = fetcher.add_keys(holder, second_list, &locally_stored);

        assert!(
            fetched.is_empty(),
            "all fetch slots are taken, yet a {}-record advertisement scheduled {} more fetch(es)",
            MAX_PARALLEL_FETCH + 1,
            fetched.len()
        );
        assert!(
            fetcher.on_going_fetches.len() <= MAX_PARALLEL_FETCH,
            "{} fetches in flight, limit is {MAX_PARALLEL_FETCH}",
            fetcher.on_going_fetches.len()
        );
    }
}
