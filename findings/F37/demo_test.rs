
// C19 demonstration 1: one `add` request whose metrics-port range and RPC-port range overlap.
// antnode1 is recorded (and saved) with RPC port 13001; antnode2 is then added with the requested
// metrics port 13001, which another service already records. The property promises that such a
// request is refused; at the very least no two recorded services may end up sharing a port.
#[tokio::test]
async fn c19_add_node_should_refuse_a_requested_port_that_a_service_added_earlier_in_the_same_call_records(
) -> Result<()> {
    let tmp_data_dir = assert_fs::TempDir::new()?;
    let node_reg_path = tmp_data_dir.child("node_reg.json");

    let mut mock_service_control = MockServiceControl::new();
    mock_service_control
        .expect_install()
        .returning(|_, _| Ok(()));

    let mut node_registry = NodeRegistry {
        auditor: None,
        faucet: None,
        save_path: node_reg_path.to_path_buf(),
        nat_status: None,
        nodes: vec![],
        environment_variables: None,
        daemon: None,
    };
    let temp_dir = assert_fs::TempDir::new()?;
    let node_data_dir = temp_dir.child("data");
    node_data_dir.create_dir_all()?;
    let node_logs_dir = temp_dir.child("logs");
    node_logs_dir.create_dir_all()?;
    let antnode_download_path = temp_dir.child(ANTNODE_FILE_NAME);
    antnode_download_path.write_binary(b"fake antnode bin")?;

    let result = add_node(
        AddNodeServiceOptions {
            auto_restart: false,
            auto_set_nat_flags: false,
            count: Some(2),
            delete_antnode_src: false,
            enable_metrics_server: false,
            env_variables: None,
            home_network: false,
            log_format: None,
            max_archived_log_files: None,
            max_log_files: None,
            metrics_port: Some(PortRange::Range(13000, 13001)),
            network_id: None,
            node_ip: None,
            node_port: None,
            owner: None,
            peers_args: PeersArgs::default(),
            rpc_address: None,
            rpc_port: Some(PortRange::Range(13001, 13002)),
            antnode_dir_path: temp_dir.to_path_buf(),
            antnode_src_path: antnode_download_path.to_path_buf(),
            service_data_dir_path: node_data_dir.to_path_buf(),
            service_log_dir_path: node_logs_dir.to_path_buf(),
            upnp: false,
            user: Some(get_username()),
            user_mode: false,
            version: "0.96.4".to_string(),
            evm_network: EvmNetwork::ArbitrumOne,
            rewards_address: RewardsAddress::from_str(
                "0x03B770D9cD32077cC0bF330c13C114a87643B124",
            )?,
        },
        &mut node_registry,
        &mock_service_control,
        VerbosityLevel::Normal,
    )
    .await;

    // What the registry file holds after the operation.
    let reloaded = NodeRegistry::load(&node_reg_path.to_path_buf())?;
    let mut owners: std::collections::HashMap<u16, Vec<String>> = std::collections::HashMap::new();
    for node in &reloaded.nodes {
        let mut ports = vec![node.rpc_socket_addr.port()];
        ports.extend(node.metrics_port);
        ports.extend(node.node_port);
        for port in ports {
            owners
                .entry(port)
                .or_default()
                .push(node.service_name.clone());
        }
    }
    let shared: Vec<_> = owners
        .iter()
        .filter(|(_, names)| names.len() > 1)
        .collect();
    assert!(
        shared.is_empty(),
        "add_node returned {:?} and the saved registry records the same port for two services: {shared:?}",
        result.as_ref().map_err(|e| e.to_string())
    );
    assert!(
        result.is_err(),
        "the request for metrics port 13001 should have been refused: antnode1 records it as its RPC port"
    );
    Ok(())
}
