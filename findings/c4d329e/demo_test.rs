
#[cfg(test)]
mod finding_display_padding {
    use super::*;

    /// One token is 10^18 atto: the printed decimal string must denote the amount's value,
    /// i.e. it must have 18 fractional digits and parse back to the same amount.
    #[test]
    fn display_prints_the_value_of_the_amount() {
        assert_eq!(AttoTokens::from_u64(1).to_string(), "0.000000000000000001");
        assert_eq!(
            AttoTokens::from_u64(1_000_000_000_000_000_001).to_string(),
            "1.000000000000000001"
        );
        assert_eq!(
            AttoTokens::from_u64(1_500_000_000_000_000_000).to_string(),
            "1.500000000000000000"
        );

        // round trip through the crate's own parser
        for atto in [1u64, 9, 10, 999_999_999, 1_000_000_000, 123_456_789_012_345_678, u64::MAX] {
            let amount = AttoTokens::from_u64(atto);
            let printed = amount.to_string();
            let reparsed = AttoTokens::from_str(&printed).expect("printed amount parses");
            assert_eq!(
                reparsed, amount,
                "{atto} atto is printed as {printed:?}, which parses back as {reparsed:?}"
            );
        }
    }
}
