
#[cfg(test)]
mod finding_from_str_non_decimal {
    use super::*;

    /// A token amount is written as decimal digits with an optional '.' and fraction.
    /// Radix prefixes and digit separators are not amounts and must be rejected.
    #[test]
    fn from_str_rejects_non_decimal_strings() {
        let mut wrongly_accepted = Vec::new();
        for input in ["0x10", "1_0", "0.0x1", "0b11", "0o17", "1.0_1", "_1"] {
            match AttoTokens::from_str(input) {
                Err(EvmError::FailedToParseAttoToken(_)) => {}
                other => wrongly_accepted.push(format!("from_str({input:?}) = {other:?}")),
            }
        }
        // sanity: ordinary decimals still parse
        assert_eq!(
            AttoTokens::from_str("10.5").unwrap(),
            AttoTokens::from_u64(10_500_000_000_000_000_000)
        );
        assert!(
            wrongly_accepted.is_empty(),
            "non-decimal strings must be rejected, but: {wrongly_accepted:#?}"
        );
    }
}
