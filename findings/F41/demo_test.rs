// Appended inside `mod tests { ... }` at the end of ant-protocol/src/lib.rs
// (just before the module's closing brace).

    /// A `NetworkAddress::RecordKey` carries a free-length byte string, so a peer may send one
    /// that is shorter than 3 bytes. Such a message decodes fine and round-trips, but the node
    /// cannot even log it: `impl Debug for NetworkAddress` slices the hex form with `[0..6]`.
    /// `handle_req_resp_events` formats the decoded request/addresses with `{:?}` (at debug
    /// level for every request, at error level for a `PeerConsideredAsBad` whose addresses are
    /// not peer ids), inside the swarm driver loop.
    #[test]
    fn c12_decoded_short_record_key_address_does_not_crash_the_receiver() {
        use crate::messages::{Cmd, Request};
        use bytes::Bytes;

        for len in 0..=3usize {
            let addr = NetworkAddress::RecordKey(Bytes::from(vec![0xabu8; len]));
            let sent = Request::Cmd(Cmd::PeerConsideredAsBad {
                detected_by: addr.clone(),
                bad_peer: addr,
                bad_behaviour: "x".to_string(),
            });

            // the bytes a peer presents to the decoder
            let wire = rmp_serde::to_vec(&sent).expect("encodes");
            let received: Request = rmp_serde::from_slice(&wire).expect("decodes");
            assert_eq!(received, sent, "round trip for a {len}-byte record key");

            // what the receiving node does next with the decoded value: log it
            let logged = std::panic::catch_unwind(|| format!("{received:?}"));
            assert!(
                logged.is_ok(),
                "formatting the decoded request (record key of {len} bytes) panicked"
            );
        }
    }
