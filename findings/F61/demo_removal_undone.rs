// Added to the `tests` module of ant-networking/src/record_store.rs (just before `historic_quoting_metrics`).
// The helper functions are shared by the demonstrations of findings 1 and 2.
// Setting C02_CONTROL=1 in the environment inserts a pause between the two operations (so that the
// disk tasks run in issue order); the test then passes, which isolates the cause.

    // ---- C02 demonstrations -------------------------------------------------------------
    // The node runs the swarm driver, and with it every record-store operation, inside a task
    // spawned on a multi-thread runtime (ant-node/src/node.rs: `spawn(swarm_driver.run())`,
    // antnode main: `Runtime::new()`). The two tests below do the same, with a single worker
    // so that the schedule of the store's detached disk tasks is reproducible.
    fn c02_run_on_worker<F>(body: F)
    where
        F: std::future::Future<Output = ()> + Send + 'static,
    {
        let rt = tokio::runtime::Builder::new_multi_thread()
            .worker_threads(1)
            .enable_all()
            .build()
            .expect("Cannot create runtime");
        rt.block_on(async { tokio::spawn(body).await.expect("test body panicked") });
    }

    fn c02_record(key: &Key, content: &[u8]) -> Record {
        Record {
            key: key.clone(),
            value: try_serialize_record(&Bytes::copy_from_slice(content), RecordKind::Scratchpad)
                .expect("serialise")
                .to_vec(),
            publisher: None,
            expires: None,
        }
    }

    fn c02_config(dir: &Path) -> NodeRecordStoreConfig {
        NodeRecordStoreConfig {
            storage_dir: dir.to_path_buf(),
            historic_quote_dir: dir.to_path_buf(),
            encryption_seed: [7u8; 16],
            ..Default::default()
        }
    }

    /// history: put(K, v1) [completed] ; put(K, v2) ; remove(K) ; all disk tasks run ; restart
    #[test]
    fn c02_completed_removal_stays_removed_after_restart() {
        c02_run_on_worker(async {
            let tmp_dir = TempDir::new().expect("tmp dir");
            let dir = tmp_dir.child("c02_removal");
            dir.create_dir_all().expect("create dir");
            let self_id = PeerId::random();
            let (network_event_sender, _network_event_receiver) = mpsc::channel(10);
            let (swarm_cmd_sender, _swarm_cmd_receiver) = mpsc::channel(10);

            let mut store = NodeRecordStore::with_config(
                self_id,
                c02_config(dir.path()),
                network_event_sender.clone(),
                swarm_cmd_sender.clone(),
            );

            let key = NetworkAddress::from_peer(PeerId::random()).to_record_key();
            let file = dir.path().join(NodeRecordStore::generate_filename(&key));
            let v1 = c02_record(&key, b"version one");
            let v2 = c02_record(&key, b"version two, an update of the record");

            // K is held: its write completed and was acknowledged
            assert!(store.put_verified(v1, RecordType::Scratchpad).is_ok());
            sleep(Duration::from_millis(300)).await;
            assert!(file.exists(), "the write of v1 completed");
            store.mark_as_stored(key.clone(), RecordType::Scratchpad);

            // an update of K is accepted, then K is removed (pruned / out of range / failed write)
            assert!(store.put_verified(v2.clone(), RecordType::Scratchpad).is_ok());
            if std::env::var("C02_CONTROL").is_ok() {
                // control: let the write task of v2 run before the removal is issued -> test passes
                sleep(Duration::from_millis(300)).await;
            }
            store.remove(&key);
            assert!(store.get(&key).is_none(), "K is removed");
            assert!(!store.contains(&key), "K is removed");

            // every background task of the store runs to completion; nothing is left in flight
            sleep(Duration::from_secs(1)).await;

            // the node stops and restarts with the same identity
            drop(store);
            let reopened = NodeRecordStore::with_config(
                self_id,
                c02_config(dir.path()),
                network_event_sender,
                swarm_cmd_sender,
            );

            let served = reopened.get(&key).map(|r| r.into_owned());
            assert!(
                served.is_none() && !reopened.contains(&key),
                "completed removals stay removed: K was removed (last operation on K) and all disk tasks had run, \
                 yet the restarted store serves it again (serves v2: {:?}, in record_addresses: {:?})",
                served.as_ref().map(|r| r.value == v2.value),
                reopened.contains(&key),
            );
        });
    }

