// added to the existing `#[cfg(test)] mod tests` of ant-node/src/node.rs, right after `use std::str::FromStr;`
    // ---- C07 hunt 3, finding 1 -------------------------------------------------------------
    // A real node (real SwarmDriver, real NodeRecordStore on a temp dir, no peers).
    // History, every delivery fully processed (its call returned) before the next one starts:
    //   1. scratchpad counter 3 is delivered (replicated copy)        -> Ok, handed to the store
    //   2. 25 other records (chunks) are stored                       -> fill the 25-entry record cache
    //   3. scratchpad counter 2 (validly signed, older) is delivered  -> must be refused
    // The disk write of step 1 has not been reported complete when step 3 reads the local copy.
    fn c07_build_node(root: &std::path::Path) -> Node {
        let mut builder = NetworkBuilder::new(Keypair::generate_ed25519(), true);
        builder.listen_addr("127.0.0.1:0".parse().expect("addr"));
        let (network, mut events, driver) =
            builder.build_node(root.to_path_buf()).expect("build_node");
        let _handle = spawn(driver.run());
        let _handle = spawn(async move { while events.recv().await.is_some() {} });
        Node {
            inner: Arc::new(NodeInner {
                events_channel: NodeEventsChannel::default(),
                initial_peers: vec![],
                network,
                #[cfg(feature = "open-metrics")]
                metrics_recorder: None,
                reward_address: RewardsAddress::default(),
                evm_network: EvmNetwork::default(),
            }),
        }
    }

    #[tokio::test]
    async fn c07_scratchpad_write_in_flight_pushed_out_of_cache_is_overwritten_by_older_counter() {
        use ant_protocol::storage::{
            try_deserialize_record, try_serialize_record, Chunk, RecordKind, Scratchpad,
        };
        use libp2p::kad::Record;

        let dir = tempfile::tempdir().expect("tempdir");
        let node = c07_build_node(dir.path());

        // one owner, three validly signed versions: counters 1, 2, 3
        let sk = bls::SecretKey::random();
        let mut pad = Scratchpad::new(sk.public_key(), 0);
        let _ = pad.update_and_sign(Bytes::from_static(b"v1"), &sk);
        let _ = pad.update_and_sign(Bytes::from_static(b"v2"), &sk);
        let pad2 = pad.clone();
        let _ = pad.update_and_sign(Bytes::from_static(b"v3"), &sk);
        let pad3 = pad.clone();
        assert!(pad2.is_valid() && pad2.count() == 2);
        assert!(pad3.is_valid() && pad3.count() == 3);
        let key = pad3.network_address().to_record_key();
        let as_record = |p: &Scratchpad| Record {
            key: key.clone(),
            value: try_serialize_record(p, RecordKind::Scratchpad)
                .expect("serialize")
                .to_vec(),
            publisher: None,
            expires: None,
        };

        // 1. counter 3 is delivered and accepted
        let first = node.store_replicated_in_record(as_record(&pad3)).await;
        assert!(first.is_ok(), "counter 3 must be accepted: {first:?}");

        // 2. 25 other records are stored (as many as the record cache holds)
        for i in 0..25u8 {
            let chunk = Chunk::new(Bytes::from(vec![i; 64]));
            node.store_chunk(&chunk).expect("store_chunk");
        }

        // 3. counter 2 is delivered afterwards
        let second = node.store_replicated_in_record(as_record(&pad2)).await;

        // let every disk write be reported, then observe the local record
        tokio::time::sleep(Duration::from_millis(1500)).await;
        let stored = node
            .network()
            .get_local_record(&key)
            .await
            .expect("get_local_record")
            .expect("the scratchpad is held");
        let stored: Scratchpad = try_deserialize_record(&stored).expect("scratchpad");

        assert_eq!(
            stored.count(),
            3,
            "counter 3 was delivered and accepted, then counter 2 was delivered (outcome: {second:?}); \
             the node now holds counter {}",
            stored.count()
        );
    }

    // Same history for a transaction set: {t1} delivered, 25 other records stored, {t2} delivered.
    #[tokio::test]
    async fn c07_transaction_write_in_flight_pushed_out_of_cache_is_lost() {
        use ant_protocol::storage::{
            try_deserialize_record, try_serialize_record, Chunk, RecordKind, Transaction,
        };
        use libp2p::kad::Record;

        let dir = tempfile::tempdir().expect("tempdir");
        let node = c07_build_node(dir.path());

        let sk = bls::SecretKey::random();
        let t1 = Transaction::new(sk.public_key(), vec![], [1u8; 32], vec![], &sk);
        let t2 = Transaction::new(sk.public_key(), vec![], [2u8; 32], vec![], &sk);
        assert!(t1.verify() && t2.verify());
        let key = NetworkAddress::from_transaction_address(t1.address()).to_record_key();
        let as_record = |t: &Transaction| Record {
            key: key.clone(),
            value: try_serialize_record(&vec![t.clone()], RecordKind::Transaction)
                .expect("serialize")
                .to_vec(),
            publisher: None,
            expires: None,
        };

        let first = node.store_replicated_in_record(as_record(&t1)).await;
        assert!(first.is_ok(), "{first:?}");
        for i in 0..25u8 {
            let chunk = Chunk::new(Bytes::from(vec![i; 64]));
            node.store_chunk(&chunk).expect("store_chunk");
        }
        let second = node.store_replicated_in_record(as_record(&t2)).await;
        assert!(second.is_ok(), "{second:?}");

        tokio::time::sleep(Duration::from_millis(1500)).await;
        let stored = node
            .network()
            .get_local_record(&key)
            .await
            .expect("get_local_record")
            .expect("the transaction set is held");
        let stored: Vec<Transaction> = try_deserialize_record(&stored).expect("transactions");
        assert!(
            stored.contains(&t1) && stored.contains(&t2),
            "t1 and t2 were delivered and accepted one after the other; the node holds {} transaction(s), t1 held: {}, t2 held: {}",
            stored.len(),
            stored.contains(&t1),
            stored.contains(&t2)
        );
    }
