
#[cfg(test)]
mod c17_tests {
    use super::*;
    use crate::config::AppData;

    // C17 demonstration: the launchpad keeps the rewards address as free text in the
    // `discord_username` field of its stored app_data.json. Only emptiness is checked before the
    // text reaches `add_nodes`, which parses it with `RewardsAddress::from_str(..).unwrap()`.
    // "test_user" is the value the crate's own config tests store in that field.
    //
    // On the unmodified code the panic is raised while the arguments of
    // `ant_node_manager::cmd::node::maintain_n_running_nodes` are evaluated, i.e. before anything
    // is installed or downloaded.
    #[tokio::test]
    async fn c17_stored_rewards_address_text_that_is_not_an_address_must_not_panic() {
        let temp_dir = tempfile::tempdir().unwrap();
        let app_data_path = temp_dir.path().join("app_data.json");
        std::fs::write(
            &app_data_path,
            r#"{"discord_username": "test_user", "nodes_to_start": 1}"#,
        )
        .unwrap();
        // the stored text loads fine ...
        let app_data = AppData::load(Some(app_data_path)).expect("app_data.json loads");

        let (action_sender, _action_receiver) = mpsc::unbounded_channel();
        // ... and is passed on exactly as `Status` does when the user starts the nodes
        let args = MaintainNodesArgs {
            action_sender: action_sender.clone(),
            antnode_path: None,
            connection_mode: ConnectionMode::Automatic,
            count: 1,
            data_dir_path: Some(temp_dir.path().to_path_buf()),
            network_id: None,
            owner: app_data.discord_username.clone(),
            peers_args: PeersArgs::default(),
            port_range: None,
            rewards_address: app_data.discord_username.clone(),
            run_nat_detection: false,
        };
        let config = prepare_node_config(&args);

        let mut used_ports = vec![];
        let mut current_port = PORT_MIN as u16;
        // must come back (reporting the bad address as an error), not panic
        add_nodes(
            &action_sender,
            &config,
            1,
            &mut used_ports,
            &mut current_port,
            PORT_MAX as u16,
        )
        .await;
    }
}
