    // F20 (C19): inserted into `mod tests` of ant-node-manager/src/lib.rs (before its closing brace).
    // History: start launches the process, the RPC refresh fails -> start returns Err and the record stays `Added`;
    // stop then returns Ok without looking at the process, which is still alive.
    #[tokio::test]
    async fn f20_successful_stop_after_failed_start_leaves_a_live_process() -> Result<()> {
        use std::sync::{atomic::{AtomicBool, Ordering}, Arc};
        let alive = Arc::new(AtomicBool::new(false));
        let mut mock_service_control = MockServiceControl::new();
        let mut mock_rpc_client = MockRpcClient::new();

        let a = alive.clone();
        mock_service_control.expect_start().returning(move |_, _| { a.store(true, Ordering::SeqCst); Ok(()) });
        mock_service_control.expect_wait().returning(|_| ());
        let a = alive.clone();
        mock_service_control.expect_get_process_pid().returning(move |p| {
            if a.load(Ordering::SeqCst) { Ok(1000) } else { Err(ServiceControlError::ServiceProcessNotFound(p.to_string_lossy().to_string())) }
        });
        let a = alive.clone();
        mock_service_control.expect_stop().returning(move |_, _| { a.store(false, Ordering::SeqCst); Ok(()) });
        // the node is up but its RPC endpoint is not answering yet
        mock_rpc_client.expect_node_info().returning(|| Err(ServiceControlError::RpcConnectionError("not ready".to_string())));

        let mut service_data = NodeServiceData {
            auto_restart: false, connected_peers: None, data_dir_path: PathBuf::from("/var/antctl/services/antnode1"),
            evm_network: EvmNetwork::ArbitrumOne, home_network: false, listen_addr: None,
            log_dir_path: PathBuf::from("/var/log/antnode/antnode1"), log_format: None, max_archived_log_files: None,
            max_log_files: None, metrics_port: None, network_id: None, node_ip: None, node_port: None, number: 1, owner: None,
            peer_id: None, peers_args: PeersArgs::default(), pid: None,
            rewards_address: RewardsAddress::from_str("0x03B770D9cD32077cC0bF330c13C114a87643B124")?,
            reward_balance: Some(AttoTokens::zero()),
            rpc_socket_addr: SocketAddr::new(IpAddr::V4(Ipv4Addr::new(127, 0, 0, 1)), 8081),
            antnode_path: PathBuf::from("/var/antctl/services/antnode1/antnode"), service_name: "antnode1".to_string(),
            status: ServiceStatus::Added, upnp: false, user: Some("ant".to_string()), user_mode: false, version: "0.98.1".to_string(),
        };
        let service = NodeService::new(&mut service_data, Box::new(mock_rpc_client));
        let mut service_manager = ServiceManager::new(service, Box::new(mock_service_control), VerbosityLevel::Minimal);

        assert!(service_manager.start().await.is_err(), "start fails: the RPC refresh failed");
        assert_matches!(service_manager.service.service_data.status, ServiceStatus::Added);
        assert!(alive.load(Ordering::SeqCst), "the process was launched");

        let stopped = service_manager.stop().await;
        assert!(stopped.is_ok());
        // C19: "a successful stop ... leaves no process"
        assert!(!alive.load(Ordering::SeqCst), "stop returned Ok but the service process is still alive");
        Ok(())
    }
