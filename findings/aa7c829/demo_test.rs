
#[cfg(test)]
mod finding_decrypt_short_input {
    use super::*;

    /// The encrypted key is read from a wallet file; any hex string can be in there. Hex that is
    /// shorter than salt (8 bytes) + nonce (12 bytes) cannot be a valid ciphertext and must give
    /// `FailedToDecryptKey`, not crash the CLI.
    #[test]
    fn decrypt_private_key_of_short_valid_hex_is_an_error() {
        for input in ["00", "", "0011223344556677", &"ab".repeat(19)] {
            let res = std::panic::catch_unwind(|| decrypt_private_key(input, "password123"));
            match res {
                Err(_) => panic!("decrypt_private_key({input:?}, _) PANICKED instead of returning Err(FailedToDecryptKey)"),
                Ok(r) => assert!(
                    matches!(r, Err(Error::FailedToDecryptKey(_))),
                    "decrypt_private_key({input:?}, _) must be Err(FailedToDecryptKey), got {r:?}"
                ),
            }
        }
        // exactly salt + nonce bytes and an empty ciphertext: an error as well (no auth tag)
        let r = decrypt_private_key(&"cd".repeat(20), "password123");
        assert!(matches!(r, Err(Error::FailedToDecryptKey(_))), "got {r:?}");
    }
}
