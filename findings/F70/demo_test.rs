
#[cfg(all(test, feature = "fs"))]
mod c17_tests {
    use super::*;

    // C17 demonstration: `ant file upload .` (also `..`, `some/dir/..` and `/`). The CLI hands the
    // path text to `Client::dir_upload{,_public}` unchanged (`PathBuf::from(file)`); the directory
    // is walked with `WalkDir::new(dir_path)`, every file in it is uploaded and paid for, and then
    // each uploaded file's path is passed together with `dir_path` to this function to get the
    // file's path inside the archive. A directory path that ends in `.` or `..` (or is the root)
    // has no `file_name()`, and the function `expect`s one.
    #[test]
    fn c17_relative_path_of_a_file_under_dot_must_not_panic() {
        for dir_text in [".", "..", "/"] {
            // what dir_upload holds for `ant file upload <dir_text>`
            let dir_path = PathBuf::from(dir_text);
            // what WalkDir::new(dir_path) yields for a file `a.txt` in that directory
            let file_path = dir_path.join("a.txt");

            let outcome = std::panic::catch_unwind(|| {
                get_relative_file_path_from_abs_file_and_folder_path(&file_path, &dir_path)
            });
            let rel_path = outcome.unwrap_or_else(|_| {
                panic!(
                    "get_relative_file_path_from_abs_file_and_folder_path({file_path:?}, {dir_path:?}) panicked"
                )
            });
            assert!(rel_path.ends_with("a.txt"), "{rel_path:?}");
        }
    }
}
