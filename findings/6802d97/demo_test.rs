
#[cfg(test)]
mod finding_verify_full_register {
    use super::*;
    use crate::{RegisterCrdt, RegisterOp};
    use bls::SecretKey;
    use std::collections::BTreeSet;

    fn op(address: RegisterAddress, sk: &SecretKey, i: u32) -> RegisterOp {
        let mut crdt = RegisterCrdt::new(address);
        let (_hash, addr, crdt_op) = crdt
            .write(i.to_be_bytes().to_vec(), &BTreeSet::new())
            .expect("crdt write");
        RegisterOp::new(addr, crdt_op, sk)
    }

    /// Every op below is accepted by `add_op`, so the resulting register is a legitimately
    /// reachable state and `verify()` (run by every other replica / node) must accept it.
    #[test]
    fn register_filled_through_add_op_verifies() {
        let sk = SecretKey::random();
        let owner = sk.public_key();
        let meta = xor_name::rand::random();
        let register = Register::new(owner, meta, Permissions::default());
        let address = *register.address();
        let signature = sk.sign(register.bytes().unwrap());
        let mut signed = SignedRegister::new(register, signature, Default::default());

        for i in 0..MAX_REG_NUM_ENTRIES as u32 {
            assert_eq!(signed.add_op(op(address, &sk, i)), Ok(()), "add_op #{i} refused");
            if i == MAX_REG_NUM_ENTRIES as u32 - 2 {
                assert_eq!(signed.verify(), Ok(()), "verify with 1023 ops");
            }
        }
        assert_eq!(signed.ops.len(), MAX_REG_NUM_ENTRIES as usize);
        // one more is correctly refused: 1024 is the maximum
        assert_eq!(
            signed.add_op(op(address, &sk, u32::MAX)),
            Err(Error::TooManyEntries(1024))
        );
        // ... hence the register with exactly 1024 accepted ops has to verify
        assert_eq!(
            signed.verify(),
            Ok(()),
            "a register holding exactly MAX_REG_NUM_ENTRIES accepted ops must verify"
        );
    }
}
