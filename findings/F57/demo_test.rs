
// C17 demonstration (appended to ant-node-manager/src/add_services/tests.rs).
// `antctl add --count 65535` when the registry already holds the service antnode1: `--count` is
// parsed by clap into a u16, every u16 is accepted, and `add_node` computes
// `current_node_count + count` in u16. The call has to give a value or an error; it must not
// overflow (panic in a build with overflow checks, wrap to "nothing to add" without them).
#[tokio::test]
async fn c17_add_node_with_the_largest_count_does_not_overflow() -> Result<()> {
    let tmp_data_dir = assert_fs::TempDir::new()?;
    let node_reg_path = tmp_data_dir.child("node_reg.json");

    // no call of the service manager is expected: nothing can be installed
    let mock_service_control = MockServiceControl::new();

    let latest_version = "0.96.4";
    let mut node_registry = NodeRegistry {
        auditor: None,
        faucet: None,
        save_path: node_reg_path.to_path_buf(),
        nat_status: None,
        nodes: vec![NodeServiceData {
            auto_restart: false,
            connected_peers: None,
            data_dir_path: PathBuf::from("/var/antctl/services/antnode1"),
            evm_network: EvmNetwork::ArbitrumOne,
            home_network: false,
            listen_addr: None,
            log_dir_path: PathBuf::from("/var/log/antnode/antnode1"),
            log_format: None,
            max_archived_log_files: None,
            max_log_files: None,
            metrics_port: None,
            network_id: None,
            node_ip: None,
            node_port: None,
            number: 1,
            owner: None,
            peer_id: None,
            peers_args: PeersArgs::default(),
            pid: None,
            rewards_address: RewardsAddress::from_str(
                "0x03B770D9cD32077cC0bF330c13C114a87643B124",
            )?,
            reward_balance: Some(AttoTokens::zero()),
            rpc_socket_addr: SocketAddr::new(IpAddr::V4(Ipv4Addr::new(127, 0, 0, 1)), 8081),
            antnode_path: PathBuf::from("/var/antctl/services/antnode1/antnode"),
            service_name: "antnode1".to_string(),
            status: ServiceStatus::Added,
            upnp: false,
            user: Some("ant".to_string()),
            user_mode: false,
            version: latest_version.to_string(),
        }],
        environment_variables: None,
        daemon: None,
    };
    let temp_dir = assert_fs::TempDir::new()?;
    let node_data_dir = temp_dir.child("data");
    node_data_dir.create_dir_all()?;
    let node_logs_dir = temp_dir.child("logs");
    node_logs_dir.create_dir_all()?;
    let antnode_download_path = temp_dir.child(ANTNODE_FILE_NAME);
    antnode_download_path.write_binary(b"fake antnode bin")?;

    let result = add_node(
        AddNodeServiceOptions {
            auto_restart: false,
            auto_set_nat_flags: false,
            count: Some(u16::MAX),
            delete_antnode_src: false,
            enable_metrics_server: false,
            env_variables: None,
            home_network: false,
            log_format: None,
            max_archived_log_files: None,
            max_log_files: None,
            metrics_port: None,
            network_id: None,
            node_ip: None,
            node_port: None,
            owner: None,
            peers_args: PeersArgs::default(),
            rpc_address: None,
            rpc_port: None,
            antnode_dir_path: temp_dir.to_path_buf(),
            antnode_src_path: antnode_download_path.to_path_buf(),
            service_data_dir_path: node_data_dir.to_path_buf(),
            service_log_dir_path: node_logs_dir.to_path_buf(),
            upnp: false,
            user: Some(get_username()),
            user_mode: false,
            version: latest_version.to_string(),
            evm_network: EvmNetwork::ArbitrumOne,
            rewards_address: RewardsAddress::from_str(
                "0x03B770D9cD32077cC0bF330c13C114a87643B124",
            )?,
        },
        &mut node_registry,
        &mock_service_control,
        VerbosityLevel::Normal,
    )
    .await;

    // 65535 services after antnode1 cannot be numbered in a u16: the request is refused
    assert!(
        result.is_err(),
        "add_node accepted a count that overflows the service numbering: {result:?}"
    );
    assert_eq!(node_registry.nodes.len(), 1);

    Ok(())
}
