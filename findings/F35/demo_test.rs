// Appended at the end of /tmp/wt/C04hunt/ant-node/src/node.rs (a sibling of the existing
// `mod tests`; it must live in node.rs because `Node`/`NodeInner` have private fields).
#[cfg(test)]
mod c04_oversized_replication_demo {
    use super::*;
    use ant_networking::MAX_PACKET_SIZE;
    use ant_protocol::storage::{try_serialize_record, Chunk, RecordKind};
    use libp2p::kad::Record;

    /// A real node (real SwarmDriver + NodeRecordStore) that listens on the loopback
    /// interface and has no peers.
    fn start_real_node(root_dir: PathBuf) -> Node {
        let mut network_builder = NetworkBuilder::new(Keypair::generate_ed25519(), true);
        network_builder.listen_addr("127.0.0.1:0".parse().expect("socket addr"));
        let (network, _network_event_receiver, swarm_driver) = network_builder
            .build_node(root_dir)
            .expect("build the node's network");
        let _handle = spawn(swarm_driver.run());
        // the receiver is leaked so that the event channel stays open for the whole test
        std::mem::forget(_network_event_receiver);

        Node {
            inner: Arc::new(NodeInner {
                network,
                events_channel: NodeEventsChannel::default(),
                initial_peers: vec![],
                reward_address: RewardsAddress::default(),
                #[cfg(feature = "open-metrics")]
                metrics_recorder: None,
                evm_network: EvmNetwork::default(),
            }),
        }
    }

    fn chunk_record(content: Vec<u8>) -> Record {
        let chunk = Chunk::new(Bytes::from(content));
        Record {
            // the key IS the one the content determines: this is a well-formed chunk record
            key: NetworkAddress::from_chunk_address(*chunk.address()).to_record_key(),
            value: try_serialize_record(&chunk, RecordKind::Chunk)
                .expect("serialise chunk")
                .to_vec(),
            publisher: None,
            expires: None,
        }
    }

    async fn readable(node: &Node, key: &libp2p::kad::RecordKey) -> bool {
        // `put_local_record` is fire-and-forget, give the driver some time
        for _ in 0..50 {
            if let Ok(Some(_)) = node.network().get_local_record(key).await {
                return true;
            }
            sleep(Duration::from_millis(100)).await;
        }
        false
    }

    #[tokio::test(flavor = "multi_thread")]
    async fn c04_oversized_record_is_refused_on_the_replication_path() {
        let temp_dir = tempfile::tempdir().expect("temp dir");
        let node = start_real_node(temp_dir.path().to_path_buf());

        // control: a normal chunk fetched through replication is stored and readable
        let small = chunk_record(vec![7u8; 1024]);
        let small_key = small.key.clone();
        node.store_replicated_in_record(small)
            .await
            .expect("a normal replicated chunk is accepted");
        assert!(
            readable(&node, &small_key).await,
            "control: the normal replicated chunk must be readable"
        );

        // a record whose value is larger than the store's `max_value_bytes` (= MAX_PACKET_SIZE,
        // what `NodeRecordStore::put` refuses with `ValueTooLarge`), handed over by the
        // replication fetch (GetReplicatedRecord responses may carry up to 10 MiB)
        let oversized = chunk_record(vec![9u8; MAX_PACKET_SIZE + 1]);
        let oversized_key = oversized.key.clone();
        let oversized_len = oversized.value.len();
        assert!(oversized_len >= MAX_PACKET_SIZE);

        let result = node.store_replicated_in_record(oversized).await;
        let stored = readable(&node, &oversized_key).await;

        // "refused" is observed on the store content: whatever validation returned, the
        // oversized record must not have become a stored, readable record
        assert!(
            !stored,
            "an oversized record ({oversized_len} bytes >= max_value_bytes {MAX_PACKET_SIZE}) arriving \
             through replication must be refused, but validation returned {result:?} and the record \
             is readable from the store: {stored}"
        );
    }
}
