// C18 demo 2: a cache file written for a different network (foreign `network_version`) is not
// ignored. BootstrapCacheStore::load_cache_data never looks at the `network_version` field that
// `write()` records, so the foreign peers are handed out as bootstrap peers and are merged into
// (and re-labelled as belonging to) our own cache on the next flush.
// (ContactsFetcher::try_parse_response, which parses the very same CacheData JSON when fetched
// from a URL, does compare `network_version` and skips the document on mismatch.)
//
// Install: copy to ant-bootstrap/tests/c18_demo2.rs
// Run:     cargo test -p ant-bootstrap --offline --test c18_demo2

use ant_bootstrap::{BootstrapCacheConfig, BootstrapCacheStore, PeersArgs};
use libp2p::{Multiaddr, PeerId};
use tempfile::TempDir;

fn addr(ip: &str, peer: &PeerId) -> Multiaddr {
    format!("/ip4/{ip}/udp/4000/quic-v1/p2p/{peer}")
        .parse()
        .unwrap()
}

/// Produce, at cfg.cache_file_path, a perfectly well-formed cache file that belongs to some other
/// network: exactly the JSON `write()` produces, only the recorded `network_version` differs.
fn write_foreign_cache(cfg: &BootstrapCacheConfig, foreign_peer_addr: &Multiaddr) {
    let mut s = BootstrapCacheStore::new(cfg.clone()).unwrap();
    s.add_addr(foreign_peer_addr.clone());
    s.sync_and_flush_to_disk(true).unwrap();

    let ours = ant_bootstrap::get_network_version();
    let text = std::fs::read_to_string(&cfg.cache_file_path).unwrap();
    let needle = format!("\"network_version\": \"{ours}\"");
    assert!(text.contains(&needle), "unexpected cache layout: {text}");
    let foreign = text.replace(&needle, "\"network_version\": \"424242_9.9\"");
    assert_ne!(text, foreign);
    std::fs::write(&cfg.cache_file_path, foreign).unwrap();
}

#[tokio::test]
async fn foreign_network_cache_file_is_not_used_for_bootstrapping() {
    let tmp = TempDir::new().unwrap();
    let cfg = BootstrapCacheConfig::empty().with_cache_path(tmp.path().join("cache.json"));

    let foreign_peer = addr("10.9.9.9", &PeerId::random());
    write_foreign_cache(&cfg, &foreign_peer);

    // Bootstrapping from that file must not yield the other network's peers.
    std::env::remove_var(ant_bootstrap::ANT_PEERS_ENV);
    let args = PeersArgs {
        first: false,
        addrs: vec![],
        network_contacts_url: vec![],
        local: false,
        disable_mainnet_contacts: true,
        ignore_cache: false,
        bootstrap_cache_dir: None,
    };
    let got = args
        .get_addrs(Some(cfg.clone()), None)
        .await
        .unwrap_or_default();
    assert!(
        !got.contains(&foreign_peer),
        "bootstrap peers were taken from a cache file of network 424242_9.9 (ours is {}): {got:?}",
        ant_bootstrap::get_network_version()
    );
}

#[test]
fn foreign_network_cache_file_is_not_merged_on_flush() {
    let tmp = TempDir::new().unwrap();
    let cfg = BootstrapCacheConfig::empty().with_cache_path(tmp.path().join("cache.json"));

    let foreign_peer = addr("10.9.9.9", &PeerId::random());
    write_foreign_cache(&cfg, &foreign_peer);

    // Flushing our own cache must ignore (overwrite) the foreign file, not merge it.
    let our_peer = addr("10.0.0.1", &PeerId::random());
    let mut ours = BootstrapCacheStore::new(cfg.clone()).unwrap();
    ours.add_addr(our_peer.clone());
    ours.sync_and_flush_to_disk(true).unwrap();

    let text = std::fs::read_to_string(&cfg.cache_file_path).unwrap();
    assert!(text.contains(&our_peer.to_string()));
    assert!(
        text.contains(&ant_bootstrap::get_network_version()),
        "flushed file is labelled with our network version"
    );
    assert!(
        !text.contains(&foreign_peer.to_string()),
        "peer of foreign network 424242_9.9 was merged into our cache file:\n{text}"
    );
}
