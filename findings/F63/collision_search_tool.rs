// scratch tool (not part of the demonstration): searches two register entries whose ops have the
// same `bytes_for_signing` (a 64-bit SipHash) for a fixed register address and writer.
use ant_registers::RegisterAddress;
use bls::SecretKey;
use crdts::merkle_reg::Node;
use std::collections::hash_map::DefaultHasher;
use std::collections::{BTreeSet, HashMap};
use std::hash::{Hash, Hasher};
use std::sync::{Arc, Mutex};
use xor_name::XorName;

#[derive(Default)]
struct Rec(Vec<u8>);
impl Hasher for Rec {
    fn write(&mut self, bytes: &[u8]) {
        self.0.extend_from_slice(bytes);
    }
    fn finish(&self) -> u64 {
        0
    }
}

fn msg(x: u64) -> Vec<u8> {
    if x & 1 == 0 {
        format!("status=ok;nonce={x:016x}").into_bytes()
    } else {
        format!("owner=mallory;nonce={x:016x}").into_bytes()
    }
}

#[derive(Clone)]
struct Ctx {
    prefix: DefaultHasher,
    suffix: Vec<u8>,
}

impl Ctx {
    fn f(&self, x: u64) -> u64 {
        let node: Node<Vec<u8>> = Node {
            children: BTreeSet::new(),
            value: msg(x),
        };
        let h = node.hash();
        let mut hasher = self.prefix.clone();
        hasher.write(&32usize.to_ne_bytes());
        hasher.write(&h);
        hasher.write(&self.suffix);
        hasher.finish()
    }
}

fn main() {
    let mut sk_bytes = [0u8; 32];
    sk_bytes[31] = 7;
    let owner_sk = SecretKey::from_bytes(sk_bytes).unwrap();
    let owner = owner_sk.public_key();
    let meta = XorName([0x11; 32]);
    let address = RegisterAddress::new(meta, owner);

    // byte stream of the three Hash calls of bytes_for_signing
    let sample = [0xabu8; 32];
    let mut rec = Rec::default();
    address.hash(&mut rec);
    let plen = rec.0.len();
    sample.hash(&mut rec);
    let hlen = rec.0.len() - plen;
    owner.hash(&mut rec);
    assert_eq!(hlen, 8 + 32);
    assert_eq!(&rec.0[plen..plen + 8], &32usize.to_ne_bytes());
    assert_eq!(&rec.0[plen + 8..plen + 40], &sample);
    let suffix = rec.0[plen + 40..].to_vec();
    let mut prefix = DefaultHasher::new();
    prefix.write(&rec.0[..plen]);
    let ctx = Ctx { prefix, suffix };
    // sanity: same as the real thing
    {
        let mut real = DefaultHasher::new();
        address.hash(&mut real);
        let node: Node<Vec<u8>> = Node {
            children: BTreeSet::new(),
            value: msg(42),
        };
        node.hash().hash(&mut real);
        owner.hash(&mut real);
        assert_eq!(real.finish(), ctx.f(42));
    }

    const DP_BITS: u32 = 22;
    let table: Arc<Mutex<HashMap<u64, (u64, u64)>>> = Arc::new(Mutex::new(HashMap::new()));
    let threads: usize = std::env::var("THREADS")
        .ok()
        .and_then(|s| s.parse().ok())
        .unwrap_or(12);
    let mut handles = vec![];
    for t in 0..threads {
        let ctx = ctx.clone();
        let table = table.clone();
        handles.push(std::thread::spawn(move || {
            let mut seed: u64 = 0x9e3779b97f4a7c15u64.wrapping_mul(t as u64 + 1);
            loop {
                seed = seed
                    .wrapping_mul(6364136223846793005)
                    .wrapping_add(1442695040888963407);
                let start = seed;
                let mut x = start;
                let mut len = 0u64;
                let mut ok = false;
                while len < (20u64 << DP_BITS) {
                    x = ctx.f(x);
                    len += 1;
                    if x >> (64 - DP_BITS) == 0 {
                        ok = true;
                        break;
                    }
                }
                if !ok {
                    continue;
                }
                let other = {
                    let mut tb = table.lock().unwrap();
                    match tb.get(&x) {
                        Some(&(s, l)) if s != start => Some((s, l)),
                        Some(_) => None,
                        None => {
                            tb.insert(x, (start, len));
                            if tb.len() % 100 == 0 {
                                eprintln!("trails: {}", tb.len());
                            }
                            None
                        }
                    }
                };
                if let Some((s2, l2)) = other {
                    // locate the collision
                    let (mut a, mut la, mut b, mut lb) = (start, len, s2, l2);
                    if la < lb {
                        std::mem::swap(&mut a, &mut b);
                        std::mem::swap(&mut la, &mut lb);
                    }
                    while la > lb {
                        a = ctx.f(a);
                        la -= 1;
                    }
                    if a == b {
                        continue; // one trail is a suffix of the other
                    }
                    loop {
                        let (na, nb) = (ctx.f(a), ctx.f(b));
                        if na == nb {
                            break;
                        }
                        a = na;
                        b = nb;
                    }
                    eprintln!("collision: {a:016x} {b:016x} -> {:016x}", ctx.f(a));
                    if (a & 1) != (b & 1) {
                        println!(
                            "USEFUL {a:016x} {b:016x}\n{}\n{}",
                            String::from_utf8(msg(a)).unwrap(),
                            String::from_utf8(msg(b)).unwrap()
                        );
                        std::process::exit(0);
                    }
                }
            }
        }));
    }
    for h in handles {
        let _ = h.join();
    }
}
