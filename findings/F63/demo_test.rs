
    /// C06 demonstration: what a writer signs is an 8-byte `DefaultHasher` (SipHash) value of
    /// (address, entry hash, source). Two different entries with the same 8 bytes were found with
    /// about 2^33 hash evaluations (a few minutes on a desktop); the writer's signature for the one
    /// is accepted as a signature for the other, which the writer never signed.
    #[test]
    fn c06_signature_for_one_entry_is_accepted_for_another_entry() -> eyre::Result<()> {
        let mut sk_bytes = [0u8; 32];
        sk_bytes[31] = 7;
        let owner_sk = SecretKey::from_bytes(sk_bytes)?;
        let meta = XorName([0x11; 32]);

        // only the owner is permitted to write
        let mut replica = create_reg_replica_with(meta, Some(owner_sk.clone()), None);
        let address = *replica.address();
        assert!(!replica.register.permissions().can_anyone_write());

        let signed_entry = b"status=ok;nonce=61b0eda101239df2".to_vec();
        let unsigned_entry = b"owner=mallory;nonce=41af8ac0982173cf".to_vec();

        // the owner writes and signs the first entry
        let (_hash, addr, crdt_op) =
            RegisterCrdt::new(address).write(signed_entry.clone(), &BTreeSet::new())?;
        let owner_op = RegisterOp::new(addr, crdt_op, &owner_sk);
        replica.add_op(owner_op.clone())?;

        // a party without any key copies that signature onto an op carrying the other entry
        let (_hash, _addr, other_crdt_op) =
            RegisterCrdt::new(address).write(unsigned_entry.clone(), &BTreeSet::new())?;
        let forged_op = RegisterOp {
            address,
            crdt_op: other_crdt_op,
            source: owner_op.source,
            signature: owner_op.signature.clone(),
        };
        assert_ne!(forged_op.crdt_op.value, owner_op.crdt_op.value);
        assert_ne!(forged_op.crdt_op.hash(), owner_op.crdt_op.hash());

        let res = replica.add_op(forged_op.clone());
        let mut crdt = RegisterCrdt::new(address);
        for op in replica.ops() {
            crdt.apply_op(op.clone())?;
        }
        let values: Vec<String> = crdt
            .read()
            .into_iter()
            .map(|(_hash, entry)| String::from_utf8_lossy(&entry).to_string())
            .collect();
        assert!(
            res.is_err(),
            "an op that nobody signed was accepted by add_op (verify() of the result: {:?}); the register now reads {values:?}",
            replica.verify()
        );
        Ok(())
    }
