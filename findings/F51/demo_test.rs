// Appended at the end of ant-node/src/quote.rs
#[cfg(test)]
mod c13_audit_tests {
    use super::*;
    use libp2p::identity::Keypair;

    /// A `Network` handle around a node key; the command channels are never used by
    /// `sign` / `verify` / `get_pub_key` / `peer_id`, which is all the quote code calls.
    fn network_with_key(keypair: Keypair) -> Network {
        let (network_cmd_sender, _network_cmd_receiver) = tokio::sync::mpsc::channel(1);
        let (local_cmd_sender, _local_cmd_receiver) = tokio::sync::mpsc::channel(1);
        let peer_id = keypair.public().to_peer_id();
        Network::new(network_cmd_sender, local_cmd_sender, peer_id, keypair)
    }

    /// Property C13: "A quote verifies for a claimed node only if it carries that node's
    /// public key and a signature by it ...; altering any one of these, the key, or the
    /// claimed identity makes verification fail."
    #[test]
    fn c13_own_quote_with_altered_pub_key_must_not_verify() {
        let node_key = Keypair::generate_ed25519();
        let network = network_with_key(node_key.clone());
        let self_peer_id = network.peer_id();

        let address = NetworkAddress::from_chunk_address(ChunkAddress::new(
            xor_name::XorName::from_content(b"c13 audit content"),
        ));
        let quoting_metrics = QuotingMetrics::default();
        let rewards_address = RewardsAddress::from([0x11u8; 20]);

        // the quote exactly as the node issues it
        let issued =
            Node::create_quote_for_storecost(&network, &address, &quoting_metrics, &rewards_address)
                .expect("quote creation");
        assert!(issued.check_is_signed_by_claimed_peer(self_peer_id));
        assert!(verify_quote_for_storecost(&network, issued.clone(), &address).is_ok());

        // alter ONLY the key: put another node's public key in the quote
        let other_key = Keypair::generate_ed25519();
        let mut foreign_key_quote = issued.clone();
        foreign_key_quote.pub_key = other_key.public().encode_protobuf();
        assert_ne!(issued.hash(), foreign_key_quote.hash());
        // the shared verifier rejects it for this node ...
        assert!(!foreign_key_quote.check_is_signed_by_claimed_peer(self_peer_id));
        // ... and it names another node as its creator
        assert_eq!(
            foreign_key_quote.peer_id().expect("decodable key"),
            other_key.public().to_peer_id()
        );

        // alter ONLY the key: no key at all
        let mut keyless_quote = issued.clone();
        keyless_quote.pub_key = vec![];
        assert!(!keyless_quote.check_is_signed_by_claimed_peer(self_peer_id));

        // the node's own verification of "a quote issued by me" must fail for both
        let foreign_verdict = verify_quote_for_storecost(&network, foreign_key_quote, &address);
        let keyless_verdict = verify_quote_for_storecost(&network, keyless_quote, &address);
        assert!(
            foreign_verdict.is_err(),
            "quote carrying ANOTHER node's public key verified as this node's own quote"
        );
        assert!(
            keyless_verdict.is_err(),
            "quote carrying NO public key verified as this node's own quote"
        );
    }
}
