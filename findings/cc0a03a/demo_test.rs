
#[cfg(test)]
mod finding_from_hex_short_input {
    use super::*;

    /// Valid hex that decodes to fewer than XOR_NAME_LEN + PK_SIZE bytes must be reported as
    /// `HexDeserializeFailed`, not crash the caller.
    #[test]
    fn from_hex_of_short_valid_hex_is_an_error() {
        for input in ["00", "", "abcd", &"11".repeat(31), &"22".repeat(79), &"33".repeat(81)] {
            let res = std::panic::catch_unwind(|| RegisterAddress::from_hex(input));
            match res {
                Ok(r) => assert_eq!(
                    r,
                    Err(Error::HexDeserializeFailed),
                    "from_hex({input:?}) must be HexDeserializeFailed"
                ),
                Err(_) => panic!("RegisterAddress::from_hex({input:?}) PANICKED instead of returning Err(HexDeserializeFailed)"),
            }
        }
    }
}
