
// Review demo for 1c85047 / d61854c: an `add` that is refused because the service numbers would
// exceed u16::MAX must leave the node registry as it was. Every other validation in `add_node`
// (ports, genesis, overlap) runs before the registry is touched; the "Too many services" guard runs
// after the registry's environment variables have been overwritten and saved to disk.
#[tokio::test]
async fn add_node_refused_for_too_many_services_should_not_change_the_registry_env_variables(
) -> Result<()> {
    let tmp_data_dir = assert_fs::TempDir::new()?;
    let node_reg_path = tmp_data_dir.child("node_reg.json");

    let evm_network = EvmNetwork::Custom(CustomNetwork {
        rpc_url_http: "http://localhost:8545".parse()?,
        payment_token_address: RewardsAddress::from_str(
            "0x5FbDB2315678afecb367f032d93F642f64180aa3",
        )?,
        data_payments_address: RewardsAddress::from_str(
            "0x8464135c8F25Da09e49BC8782676a84730C318bC",
        )?,
    });
    let recorded_env = Some(vec![("ANT_LOG".to_string(), "all".to_string())]);

    let mut node_registry = NodeRegistry {
        auditor: None,
        faucet: None,
        save_path: node_reg_path.to_path_buf(),
        nat_status: None,
        // the highest recorded service number is already at the top of the u16 range
        nodes: vec![NodeServiceData {
            auto_restart: false,
            connected_peers: None,
            data_dir_path: PathBuf::from("/var/antctl/services/antnode65535"),
            evm_network: evm_network.clone(),
            home_network: false,
            listen_addr: None,
            log_format: None,
            log_dir_path: PathBuf::from("/var/log/antnode/antnode65535"),
            max_archived_log_files: None,
            max_log_files: None,
            metrics_port: None,
            network_id: None,
            node_ip: None,
            node_port: None,
            number: u16::MAX,
            owner: None,
            peer_id: None,
            peers_args: PeersArgs::default(),
            pid: None,
            rewards_address: RewardsAddress::from_str(
                "0x03B770D9cD32077cC0bF330c13C114a87643B124",
            )?,
            reward_balance: None,
            rpc_socket_addr: SocketAddr::new(IpAddr::V4(Ipv4Addr::new(127, 0, 0, 1)), 8081),
            antnode_path: PathBuf::from("/var/antctl/services/antnode65535/antnode"),
            service_name: "antnode65535".to_string(),
            status: ServiceStatus::Added,
            upnp: false,
            user: Some("ant".to_string()),
            user_mode: false,
            version: "0.98.1".to_string(),
        }],
        environment_variables: recorded_env.clone(),
        daemon: None,
    };
    node_registry.save()?;

    let temp_dir = assert_fs::TempDir::new()?;
    let node_data_dir = temp_dir.child("data");
    node_data_dir.create_dir_all()?;
    let node_logs_dir = temp_dir.child("logs");
    node_logs_dir.create_dir_all()?;
    let antnode_download_path = temp_dir.child(ANTNODE_FILE_NAME);
    antnode_download_path.write_binary(b"fake antnode bin")?;

    // no expectation is set on the mock: nothing may be installed
    let result = add_node(
        AddNodeServiceOptions {
            auto_restart: false,
            auto_set_nat_flags: false,
            count: Some(1),
            delete_antnode_src: false,
            enable_metrics_server: false,
            env_variables: Some(vec![("ANT_LOG".to_string(), "off".to_string())]),
            home_network: false,
            log_format: None,
            max_archived_log_files: None,
            max_log_files: None,
            metrics_port: None,
            network_id: None,
            node_ip: None,
            node_port: None,
            owner: None,
            peers_args: PeersArgs::default(),
            rpc_address: None,
            rpc_port: None,
            antnode_dir_path: temp_dir.to_path_buf(),
            antnode_src_path: antnode_download_path.to_path_buf(),
            service_data_dir_path: node_data_dir.to_path_buf(),
            service_log_dir_path: node_logs_dir.to_path_buf(),
            upnp: false,
            user: Some(get_username()),
            user_mode: false,
            version: "0.96.4".to_string(),
            evm_network,
            rewards_address: RewardsAddress::from_str(
                "0x03B770D9cD32077cC0bF330c13C114a87643B124",
            )?,
        },
        &mut node_registry,
        &MockServiceControl::new(),
        VerbosityLevel::Normal,
    )
    .await;

    // the add is refused, as 1c85047 intends ...
    let err = result.expect_err("the add must be refused");
    assert_eq!(
        err.to_string(),
        "Too many services: the service numbers would exceed 65535"
    );
    assert_eq!(node_registry.nodes.len(), 1);

    // ... and a refused add must not have changed anything: neither in memory nor on disk.
    // (The registry's environment variables are applied to every existing service by the next
    // `antctl upgrade`.)
    assert_eq!(
        node_registry.environment_variables, recorded_env,
        "a refused add overwrote the environment variables of the registry in memory"
    );
    let on_disk = NodeRegistry::load(&node_reg_path.to_path_buf())?;
    assert_eq!(
        on_disk.environment_variables, recorded_env,
        "a refused add overwrote the environment variables of the registry on disk"
    );

    Ok(())
}
