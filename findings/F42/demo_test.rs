// Appended at the end of ant-networking/src/event/kad.rs

#[cfg(test)]
mod c05_finding1_tests {
    use super::*;
    use crate::{cmd::NetworkSwarmCmd, NetworkBuilder};
    use libp2p::{
        identity::Keypair,
        kad::{Quorum, RecordKey},
        PeerId,
    };
    use std::num::NonZeroUsize;

    type Rx = oneshot::Receiver<std::result::Result<Record, GetRecordError>>;

    fn cfg(get_quorum: Quorum, target_record: Option<Record>) -> GetRecordCfg {
        GetRecordCfg {
            get_quorum,
            retry_strategy: None,
            target_record,
            expected_holders: Default::default(),
            is_register: false,
        }
    }

    /// What `Network::get_record_from_network` does for one attempt: hand the real driver a
    /// `GetNetworkRecord` command and keep the receiving end of the result channel.
    fn call_get(driver: &mut SwarmDriver, key: &RecordKey, cfg: GetRecordCfg) -> Rx {
        let (sender, receiver) = oneshot::channel();
        driver
            .handle_network_cmd(NetworkSwarmCmd::GetNetworkRecord {
                key: key.clone(),
                sender,
                cfg,
            })
            .expect("GetNetworkRecord is accepted");
        receiver
    }

    /// The kad queries the driver currently has in flight for `key`.
    fn queries_for(driver: &SwarmDriver, key: &RecordKey) -> Vec<QueryId> {
        driver
            .pending_get_record
            .iter()
            .filter(|(_, (k, ..))| k == key)
            .map(|(id, _)| *id)
            .collect()
    }

    /// A kad `FoundRecord` progress event: `peer` answered the query with `record`.
    fn found(id: QueryId, peer: PeerId, record: &Record, count: usize) -> kad::Event {
        kad::Event::OutboundQueryProgressed {
            id,
            result: QueryResult::GetRecord(Ok(kad::GetRecordOk::FoundRecord(PeerRecord {
                peer: Some(peer),
                record: record.clone(),
            }))),
            stats: QueryStats::empty(),
            step: ProgressStep {
                count: NonZeroUsize::new(count).expect("non zero"),
                last: false,
            },
        }
    }

    // Finding 1: a caller that joins an in-flight query for the same key is served under the
    // FIRST caller's cfg; its own quorum and expected value are silently dropped.
    #[tokio::test]
    async fn c05_joined_caller_quorum_and_target_are_honoured() {
        let (_network, _events, mut driver) =
            NetworkBuilder::new(Keypair::generate_ed25519(), false)
                .build_client()
                .expect("client driver");

        let key = RecordKey::new(b"c05 key");
        let on_network = Record::new(key.clone(), b"content one peer holds".to_vec());
        let expected_by_b = Record::new(key.clone(), b"content caller B expects".to_vec());

        // Control: caller B's request on its own (another key, same driver) is NOT satisfied by one
        // differing copy -- the quorum / target checks do work when B's cfg is the one in force.
        {
            let key2 = RecordKey::new(b"c05 control key");
            let on_network2 = Record::new(key2.clone(), b"content one peer holds".to_vec());
            let expected2 = Record::new(key2.clone(), b"content caller B expects".to_vec());
            let mut rx = call_get(&mut driver, &key2, cfg(Quorum::All, Some(expected2)));
            let id2 = *driver
                .pending_get_record
                .keys()
                .next()
                .expect("one pending query");
            let _ = driver.handle_kad_event(found(id2, PeerId::random(), &on_network2, 1));
            assert!(
                matches!(rx.try_recv(), Err(oneshot::error::TryRecvError::Empty)),
                "control: alone, B is still waiting after a single reply"
            );
            let _ = driver.pending_get_record.remove(&id2);
        }

        // Caller A: any single copy will do.
        let mut rx_a = call_get(&mut driver, &key, cfg(Quorum::One, None));
        // Caller B, concurrently, same key: needs ALL close-group peers to agree, on `expected_by_b`.
        let mut rx_b = call_get(
            &mut driver,
            &key,
            cfg(Quorum::All, Some(expected_by_b.clone())),
        );

        // Exactly ONE peer answers (to whatever queries the driver has in flight for the key),
        // with content different from what B expects.
        let the_only_peer = PeerId::random();
        for query_id in queries_for(&driver, &key) {
            let _ = driver.handle_kad_event(found(query_id, the_only_peer, &on_network, 1));
        }

        // A asked for quorum One: one copy is a legitimate success.
        assert_eq!(
            rx_a.try_recv().expect("A got an outcome").expect("A got a value"),
            on_network
        );

        // B asked for quorum All (5) and for a specific value. One differing copy must not be a success.
        let outcome_b = rx_b.try_recv();
        if let Ok(Ok(record)) = &outcome_b {
            panic!(
                "caller B (Quorum::All = {} peers, target_record = {:?}) was handed Ok({:?}) after a single peer replied; matches B's target: {}",
                get_quorum_value(&Quorum::All),
                String::from_utf8_lossy(&expected_by_b.value),
                String::from_utf8_lossy(&record.value),
                *record == expected_by_b,
            );
        }
    }
}
