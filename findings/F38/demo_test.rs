// C16 demonstration: AttoTokens::from_str accepts strings that contain no digit at all.
//
// Property clause: "Parsing accepts exactly the decimal strings that denote a representable
// amount with at most 18 fractional digits and rejects the rest with an error."
// The empty string and the lone "." denote no amount, so both must be rejected.

use ant_evm::AttoTokens;
use std::str::FromStr;

#[test]
fn c16_strings_without_any_digit_are_rejected() {
    // sanity: well-formed spellings of zero are accepted (so the test is not vacuous)
    assert_eq!(AttoTokens::from_str("0").ok(), Some(AttoTokens::zero()));
    assert_eq!(AttoTokens::from_str("0.0").ok(), Some(AttoTokens::zero()));

    for s in ["", "."] {
        let parsed = AttoTokens::from_str(s);
        assert!(
            parsed.is_err(),
            "{s:?} is not a decimal string denoting an amount, yet it parsed as {parsed:?}"
        );
    }
}
