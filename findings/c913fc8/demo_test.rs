
/// Demonstration for the fix in ant-node/src/put_validation.rs
/// (`Node::payment_for_us_exists_and_is_still_valid`, reached through
/// `Node::validate_and_store_record` with a `ChunkWithPayment` record). It lives in node.rs because
/// building a stand-alone `Node` needs the private fields of `Node` / `NodeInner`.
///
/// Everything on the node side is the real code (SwarmDriver, NodeRecordStore, signature checks,
/// evmlib's `verify_data_payment` with its alloy HTTP provider). The only stand-in is the EVM
/// chain: a tiny JSON-RPC server that answers the payment vault's `verifyPayment` call the way
/// the contract does for a quote that has really been paid: "quote hash Q: paid, valid".
#[cfg(test)]
mod finding_payment_proof_for_other_content {
    use super::*;
    use ant_evm::{EncodedPeerId, PaymentQuote, ProofOfPayment, QuotingMetrics};
    use ant_protocol::storage::{try_serialize_record, Chunk, RecordKind};
    use libp2p::kad::Record;
    use std::io::{Read, Write};

    fn standalone_node(root_dir: PathBuf, keypair: Keypair, evm_network: EvmNetwork) -> Node {
        let mut network_builder = NetworkBuilder::new(keypair, true);
        network_builder.listen_addr("127.0.0.1:0".parse().expect("socket addr"));
        let (network, mut network_event_receiver, swarm_driver) = network_builder
            .build_node(root_dir)
            .expect("network can be built");
        let _handle = spawn(swarm_driver.run());
        // nobody processes network events in this demo, just keep the channel drained
        let _handle = spawn(async move { while network_event_receiver.recv().await.is_some() {} });
        Node {
            inner: Arc::new(NodeInner {
                events_channel: NodeEventsChannel::default(),
                initial_peers: vec![],
                network,
                #[cfg(feature = "open-metrics")]
                metrics_recorder: None,
                reward_address: RewardsAddress::default(),
                evm_network,
            }),
        }
    }

    /// Stand-in for the chain: `verifyPayment(PaymentVerification[])` answers, for every quote
    /// hash asked about, (hash, 1 atto, valid) if it is in `paid` and (hash, 0, invalid) otherwise.
    fn fake_evm_rpc(paid: Vec<[u8; 32]>) -> String {
        let listener = std::net::TcpListener::bind("127.0.0.1:0").expect("bind");
        let url = format!("http://{}", listener.local_addr().expect("addr"));
        let _ = std::thread::spawn(move || {
            for stream in listener.incoming() {
                let Ok(mut stream) = stream else { return };
                let paid = paid.clone();
                let _ = std::thread::spawn(move || {
                    let mut buf: Vec<u8> = Vec::new();
                    loop {
                        // read one HTTP request
                        let (body_start, body_len) = loop {
                            if let Some(pos) = buf.windows(4).position(|w| w == b"\r\n\r\n") {
                                let head = String::from_utf8_lossy(&buf[..pos]).to_ascii_lowercase();
                                let len = head
                                    .lines()
                                    .find_map(|l| l.strip_prefix("content-length:"))
                                    .and_then(|v| v.trim().parse::<usize>().ok())
                                    .unwrap_or(0);
                                if buf.len() >= pos + 4 + len {
                                    break (pos + 4, len);
                                }
                            }
                            let mut chunk = [0u8; 4096];
                            match stream.read(&mut chunk) {
                                Ok(0) | Err(_) => return,
                                Ok(n) => buf.extend_from_slice(&chunk[..n]),
                            }
                        };
                        let request: serde_json::Value =
                            serde_json::from_slice(&buf[body_start..body_start + body_len])
                                .expect("json-rpc request");
                        let _ = buf.drain(..body_start + body_len);

                        let answer_one = |req: &serde_json::Value| -> serde_json::Value {
                            let method = req["method"].as_str().unwrap_or_default();
                            let result = if method == "eth_call" {
                                let call = &req["params"][0];
                                let data = call["input"]
                                    .as_str()
                                    .or_else(|| call["data"].as_str())
                                    .unwrap_or_default();
                                let data = hex::decode(data.trim_start_matches("0x")).expect("hex");
                                // selector | offset | len | len * (6 metrics words, address, quoteHash)
                                let n = u64::from_be_bytes(
                                    data[4 + 32 + 24..4 + 64].try_into().expect("len"),
                                ) as usize;
                                let mut out = Vec::new();
                                for i in 0..3 {
                                    let mut hash = [0u8; 32];
                                    if i < n {
                                        let at = 4 + 64 + i * 256 + 224;
                                        hash.copy_from_slice(&data[at..at + 32]);
                                    }
                                    let is_paid = i >= n || paid.contains(&hash);
                                    out.extend_from_slice(&hash);
                                    let mut amount = [0u8; 32];
                                    amount[31] = u8::from(i < n && is_paid);
                                    out.extend_from_slice(&amount);
                                    let mut valid = [0u8; 32];
                                    valid[31] = u8::from(is_paid);
                                    out.extend_from_slice(&valid);
                                }
                                format!("0x{}", hex::encode(out))
                            } else {
                                // eth_chainId, eth_blockNumber, ...
                                "0x1".to_string()
                            };
                            serde_json::json!({"jsonrpc": "2.0", "id": req["id"].clone(), "result": result})
                        };
                        let response = match &request {
                            serde_json::Value::Array(reqs) => {
                                serde_json::Value::Array(reqs.iter().map(answer_one).collect())
                            }
                            single => answer_one(single),
                        }
                        .to_string();
                        let http = format!(
                            "HTTP/1.1 200 OK\r\ncontent-type: application/json\r\ncontent-length: {}\r\n\r\n{}",
                            response.len(),
                            response
                        );
                        if stream.write_all(http.as_bytes()).is_err() {
                            return;
                        }
                    }
                });
            }
        });
        url
    }

    async fn present_locally(node: &Node, key: &libp2p::kad::RecordKey) -> bool {
        for _ in 0..40 {
            if node
                .network()
                .is_record_key_present_locally(key)
                .await
                .unwrap_or(false)
            {
                return true;
            }
            tokio::time::sleep(Duration::from_millis(50)).await;
        }
        false
    }

    fn chunk_with_payment(chunk: &Chunk, proof: &ProofOfPayment) -> Record {
        Record {
            key: chunk.network_address().to_record_key(),
            value: try_serialize_record(&(proof.clone(), chunk.clone()), RecordKind::ChunkWithPayment)
                .expect("serialise")
                .to_vec(),
            publisher: None,
            expires: None,
        }
    }

    #[tokio::test(flavor = "multi_thread")]
    async fn proof_of_payment_quoted_for_other_content_is_refused() {
        let keypair = Keypair::generate_ed25519();
        let self_peer_id = PeerId::from(keypair.public());

        // content B: the node issues a quote for it (exactly what create_quote_for_storecost signs)
        let chunk_b = Chunk::new(Bytes::from_static(b"content B, the one that was quoted and paid"));
        let rewards_address = RewardsAddress::default();
        let quoting_metrics = QuotingMetrics::default();
        let timestamp = std::time::SystemTime::now();
        let sig_bytes = PaymentQuote::bytes_for_signing(
            *chunk_b.name(),
            timestamp,
            &quoting_metrics,
            &rewards_address,
        );
        let quote_for_b = PaymentQuote {
            content: *chunk_b.name(),
            timestamp,
            quoting_metrics,
            rewards_address,
            pub_key: keypair.public().encode_protobuf(),
            signature: keypair.sign(&sig_bytes).expect("sign"),
        };
        assert!(quote_for_b.check_is_signed_by_claimed_peer(self_peer_id));
        let proof_for_b = ProofOfPayment {
            peer_quotes: vec![(EncodedPeerId::from(self_peer_id), quote_for_b.clone())],
        };

        // the chain knows one payment: the one for that quote
        let rpc_url = fake_evm_rpc(vec![quote_for_b.hash().0]);
        let evm_network = EvmNetwork::new_custom(
            &rpc_url,
            "0x5FbDB2315678afecb367f032d93F642f64180aa3",
            "0x8464135c8F25Da09e49BC8782676a84730C318bC",
        );

        let tmp = tempfile::tempdir().expect("temp dir");
        let node = standalone_node(tmp.path().to_path_buf(), keypair, evm_network);
        assert_eq!(node.network().peer_id(), self_peer_id);

        // arbitrary other content A uploaded with the proof that was quoted and paid for B
        let chunk_a = Chunk::new(Bytes::from_static(b"content A, never quoted, never paid"));
        assert_ne!(chunk_a.name(), chunk_b.name());
        let record_a = chunk_with_payment(&chunk_a, &proof_for_b);
        let key_a = record_a.key.clone();
        let res_a = node.validate_and_store_record(record_a).await;
        let a_stored = present_locally(&node, &key_a).await;

        // control: the proof used for the content it was quoted for is accepted (so the stand-in
        // chain, the signatures, expiry and payee checks are all exercised and pass)
        let record_b = chunk_with_payment(&chunk_b, &proof_for_b);
        let key_b = record_b.key.clone();
        let res_b = node.validate_and_store_record(record_b).await;
        assert!(res_b.is_ok(), "paid chunk B must be accepted: {res_b:?}");
        assert!(present_locally(&node, &key_b).await, "paid chunk B is stored");

        assert!(
            matches!(res_a, Err(crate::Error::InvalidRequest(_))) && !a_stored,
            "chunk A uploaded with a proof quoted for chunk B must be refused; \
             validate_and_store_record returned {res_a:?}, chunk A stored locally: {a_stored}"
        );
    }
}
