// C10 demo 2: a store configured with capacity 0 accepts (and keeps) a record.
// prune_records_if_needed sees "full", finds no farthest record and falls
// through to Ok(()) instead of refusing.
//
// Install: append this file to ant-networking/src/record_store.rs
// Run:     cargo test -p ant-networking --offline --lib c10_demo2
#[cfg(test)]
mod c10_demo2 {
    use super::*;
    use ant_protocol::storage::try_serialize_record;
    use bytes::Bytes;

    #[tokio::test]
    async fn c10_demo2_capacity_zero_never_retains_a_record() {
        let max_records = 0;
        let storage_dir = std::env::temp_dir().join(format!("c10_demo2_{}", uuid::Uuid::new_v4()));
        fs::create_dir_all(&storage_dir).expect("create dir");
        let config = NodeRecordStoreConfig {
            max_records,
            storage_dir: storage_dir.clone(),
            historic_quote_dir: storage_dir,
            ..Default::default()
        };
        let self_id = PeerId::random();
        let (network_event_sender, _rx1) = mpsc::channel(1);
        let (swarm_cmd_sender, _rx2) = mpsc::channel(100);
        let mut store =
            NodeRecordStore::with_config(self_id, config, network_event_sender, swarm_cmd_sender);

        let key = NetworkAddress::from_peer(PeerId::random()).to_record_key();
        let record = Record {
            key: key.clone(),
            value: try_serialize_record(&Bytes::from(vec![7u8; 50]), RecordKind::Chunk)
                .expect("serialise")
                .to_vec(),
            publisher: None,
            expires: None,
        };

        // A single put, no burst. The store is at capacity (0 held, capacity 0)
        // and holds no farthest record the newcomer could be closer than, so the
        // property requires a refusal.
        let result = store.put_verified(record, RecordType::Chunk);
        let mut in_flight = 0usize;
        if result.is_ok() {
            in_flight = 1;
            // the write is acknowledged (LocalSwarmCmd::AddLocalRecordAsStored)
            store.mark_as_stored(key.clone(), RecordType::Chunk);
            in_flight -= 1;
        }

        let held = store.record_addresses_ref().len();
        let (metrics, _) = store.quoting_metrics(&key, None);
        assert!(
            held <= max_records + in_flight,
            "store with capacity {max_records} retains {held} record(s) with {in_flight} writes in flight \
             (put_verified returned {result:?}; quote says close_records_stored={} max_records={})",
            metrics.close_records_stored,
            metrics.max_records
        );
    }
}
