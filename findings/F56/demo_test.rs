    // C17 demonstration 2 (appended to the `tests` module of node-launchpad/src/config.rs).
    // A key binding of the user's configuration file
    // (<data dir>/autonomi/launchpad/config/config.json5, read by `Config::new`) is parsed by
    // `KeyBindings::deserialize` -> `parse_key_sequence`. `parse_key_sequence` reports an unknown key
    // as an `Err`, and the deserializer has an error channel of its own; an unknown key in the file
    // has to come out as that error, not as a panic.
    #[test]
    fn c17_user_config_keybinding_text_never_panics() {
        let mut panicking = vec![];
        for key_text in ["<ctrl-foo>", "<f13>", "<pgup>", ""] {
            // the parser itself returns an error for these texts
            assert!(parse_key_sequence(key_text).is_err());

            let user_config =
                format!(r#"{{ "keybindings": {{ "Status": {{ "{key_text}": "Quit" }} }} }}"#);
            let outcome =
                std::panic::catch_unwind(|| json5::from_str::<Config>(&user_config).map(|_| ()));
            if outcome.is_err() {
                panicking.push(key_text);
            }
        }
        assert!(
            panicking.is_empty(),
            "parsing a configuration file panicked for the key texts {panicking:?}"
        );
    }
