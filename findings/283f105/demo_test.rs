
#[cfg(test)]
mod finding_foreign_register_op {
    use super::*;
    use crate::{RegisterCrdt, RegisterOp};
    use bls::SecretKey;
    use std::collections::BTreeSet;

    fn new_signed(sk: &SecretKey, perms: Permissions) -> SignedRegister {
        let register = Register::new(sk.public_key(), xor_name::rand::random(), perms);
        let signature = sk.sign(register.bytes().unwrap());
        SignedRegister::new(register, signature, Default::default())
    }

    fn op_for(address: RegisterAddress, sk: &SecretKey) -> RegisterOp {
        let mut crdt = RegisterCrdt::new(address);
        let (_hash, addr, crdt_op) = crdt.write(b"entry".to_vec(), &BTreeSet::new()).unwrap();
        assert_eq!(addr, address);
        RegisterOp::new(addr, crdt_op, sk)
    }

    /// An op created and signed for register X must not be accepted into register Y.
    #[test]
    fn op_addressed_to_other_register_is_refused() {
        // case 1: Y is AnyoneCanWrite, op written by a stranger for its own register X
        let owner_sk = SecretKey::random();
        let mut reg_y = new_signed(&owner_sk, Permissions::new_anyone_can_write());
        let stranger_sk = SecretKey::random();
        let reg_x = new_signed(&stranger_sk, Permissions::default());
        assert_ne!(reg_x.address(), reg_y.address());
        let foreign_op = op_for(*reg_x.address(), &stranger_sk);

        let res = reg_y.add_op(foreign_op.clone());
        assert!(
            matches!(res, Err(Error::RegisterAddrMismatch { .. })),
            "add_op of an op addressed to another register returned {res:?}"
        );

        // case 2: owner-only register Y, owner-signed op for another of the owner's registers
        let mut reg_y2 = new_signed(&owner_sk, Permissions::default());
        let reg_x2 = new_signed(&owner_sk, Permissions::default());
        let foreign_op2 = op_for(*reg_x2.address(), &owner_sk);
        let res = reg_y2.add_op(foreign_op2.clone());
        assert!(
            matches!(res, Err(Error::RegisterAddrMismatch { .. })),
            "add_op (owner-only register) of an op addressed to another register returned {res:?}"
        );

        // case 3: a SignedRegister carrying a foreign op must not verify
        let sig = owner_sk.sign(reg_y2.base_register().bytes().unwrap());
        let forged = SignedRegister::new(
            reg_y2.base_register().clone(),
            sig,
            BTreeSet::from([foreign_op2]),
        );
        let res = forged.verify();
        assert!(
            matches!(res, Err(Error::RegisterAddrMismatch { .. })),
            "verify() of a register holding an op addressed to another register returned {res:?}"
        );

        // consequence shown for information: readers replay ops into a RegisterCrdt and fail there
        let mut crdt = RegisterCrdt::new(*forged.address());
        for op in forged.ops() {
            assert!(crdt.apply_op(op.clone()).is_err());
        }
    }
}
