// C17 demonstration: the custom EVM network is built from user-supplied text (the RPC_URL,
// PAYMENT_TOKEN_ADDRESS and DATA_PAYMENTS_ADDRESS environment variables, the `evm-custom`
// command line arguments, the stored evm_testnet_data.csv). Text that does not parse must come
// back as an error, not as a panic.
use evmlib::utils::get_evm_network_from_env;

const GOOD_URL: &str = "http://localhost:8545";
const GOOD_TOKEN: &str = "0x5FbDB2315678afecb367f032d93F642f64180aa3";
const GOOD_PAYMENTS: &str = "0x8464135c8F25Da09e49BC8782676a84730C318bC";

fn network_from_env(rpc_url: &str, token: &str, payments: &str) -> std::thread::Result<bool> {
    std::env::remove_var("EVM_NETWORK");
    std::env::set_var("RPC_URL", rpc_url);
    std::env::set_var("PAYMENT_TOKEN_ADDRESS", token);
    std::env::set_var("DATA_PAYMENTS_ADDRESS", payments);
    // Ok(true): a network came back, Ok(false): an error came back, Err(_): it panicked
    std::panic::catch_unwind(|| get_evm_network_from_env().is_ok())
}

#[test]
fn c17_custom_evm_network_text_that_does_not_parse_is_an_error_not_a_panic() {
    // sanity: the well-formed triple is accepted
    assert_eq!(
        network_from_env(GOOD_URL, GOOD_TOKEN, GOOD_PAYMENTS).ok(),
        Some(true)
    );

    let cases = [
        // a hex address that is one digit short
        (GOOD_URL, &GOOD_TOKEN[..GOOD_TOKEN.len() - 1], GOOD_PAYMENTS),
        // an empty hex address
        (GOOD_URL, GOOD_TOKEN, ""),
        // a host:port without a scheme
        ("127.0.0.1:8545", GOOD_TOKEN, GOOD_PAYMENTS),
    ];
    for (rpc_url, token, payments) in cases {
        let outcome = network_from_env(rpc_url, token, payments);
        assert!(
            outcome.is_ok(),
            "get_evm_network_from_env panicked for RPC_URL={rpc_url:?} PAYMENT_TOKEN_ADDRESS={token:?} DATA_PAYMENTS_ADDRESS={payments:?}"
        );
        assert_eq!(outcome.ok(), Some(false), "text that does not parse must be refused");
    }
}
