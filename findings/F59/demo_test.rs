// Appended to ant-networking/src/event/kad.rs
#[cfg(test)]
mod c05_single_peer_transaction_demo {
    use super::*;
    use crate::{cmd::NetworkSwarmCmd, driver::NetworkBuilder};
    use ant_protocol::storage::Scratchpad;
    use libp2p::{identity::Keypair, kad::Quorum, PeerId};
    use std::num::NonZeroUsize;

    fn found(id: QueryId, peer: PeerId, record: Record, count: usize) -> kad::Event {
        kad::Event::OutboundQueryProgressed {
            id,
            result: QueryResult::GetRecord(Ok(kad::GetRecordOk::FoundRecord(PeerRecord {
                peer: Some(peer),
                record,
            }))),
            stats: QueryStats::empty(),
            step: ProgressStep {
                count: NonZeroUsize::new(count).expect("non zero"),
                last: false,
            },
        }
    }

    // Quorum::Majority read of a scratchpad key. Three peers return the byte-identical, validly signed
    // scratchpad. One peer answered before them with a record of kind Transaction.
    // The read must not succeed with the content that a single peer returned.
    #[tokio::test]
    async fn c05_majority_read_does_not_succeed_with_the_version_of_a_single_peer() {
        let (_network, _events, mut driver) =
            NetworkBuilder::new(Keypair::generate_ed25519(), false)
                .build_client()
                .expect("client driver");

        // what the three honest holders store
        let owner = bls::SecretKey::random();
        let mut pad = Scratchpad::new(owner.public_key(), 0);
        let _ = pad.update_and_sign(bytes::Bytes::from_static(b"the owner's data"), &owner);
        assert!(pad.is_valid());
        let key = pad.network_address().to_record_key();
        let honest = Record::new(
            key.clone(),
            try_serialize_record(&pad, RecordKind::Scratchpad)
                .expect("serialises")
                .to_vec(),
        );
        let honest_hash = XorName::from_content(&honest.value);

        // what the single odd peer answers: any transaction of its own, under the requested key
        let odd_sk = bls::SecretKey::random();
        let tx = Transaction::new(odd_sk.public_key(), vec![], [7u8; 32], vec![], &odd_sk);
        let odd = Record::new(
            key.clone(),
            try_serialize_record(&vec![tx], RecordKind::Transaction)
                .expect("serialises")
                .to_vec(),
        );

        let (sender, mut rx) = oneshot::channel();
        driver
            .handle_network_cmd(NetworkSwarmCmd::GetNetworkRecord {
                key: key.clone(),
                sender,
                cfg: GetRecordCfg {
                    get_quorum: Quorum::Majority,
                    retry_strategy: None,
                    target_record: None,
                    expected_holders: Default::default(),
                    is_register: false,
                },
            })
            .expect("GetNetworkRecord is accepted");
        let id = *driver
            .pending_get_record
            .keys()
            .next()
            .expect("the read is pending");

        let _ = driver.handle_kad_event(found(id, PeerId::random(), odd.clone(), 1));
        for count in 2..=4 {
            assert!(rx.try_recv().is_err(), "no outcome before a majority agrees");
            let _ = driver.handle_kad_event(found(id, PeerId::random(), honest.clone(), count));
        }

        match rx.try_recv().expect("the majority has answered: an outcome is due") {
            Ok(record) => assert_eq!(
                XorName::from_content(&record.value),
                honest_hash,
                "Quorum::Majority read succeeded with content that ONE peer returned (kind {:?}); \
                 the version three peers agree on was dropped",
                ant_protocol::storage::RecordHeader::from_record(&record).map(|h| h.kind)
            ),
            Err(GetRecordError::SplitRecord { result_map }) => {
                assert_eq!(result_map.len(), 2, "the caller gets the full set of versions")
            }
            Err(other) => panic!("unexpected outcome {other:?}"),
        }
    }
}
