
/// Demonstration for `Client::get_vault_from_network` / `Client::fetch_and_decrypt_vault`.
/// No live Autonomi network is needed: the "network" is three real ant-networking nodes
/// (SwarmDriver + NodeRecordStore, listening on 127.0.0.1) acting as the holders of the vault's
/// scratchpad key, and a real client-mode `Network` that dials them. Adversarial holders get their
/// record through `put_local_record`, which stores without validation. The code under test and the
/// kad GET (Quorum::Majority) it performs are the real ones.
#[cfg(test)]
mod finding_vault_fetch_unverified_scratchpad {
    use super::*;
    use ant_networking::{NetworkBuilder, NetworkEvent};
    use libp2p::{identity::Keypair, Multiaddr};
    use std::{sync::Arc, time::Duration};

    /// Start a real node holding `record` (unvalidated) and return an address to dial it at.
    async fn holder(record: Record) -> Multiaddr {
        let root_dir = std::env::temp_dir().join(format!("finding_holder_{}", rand::random::<u64>()));
        std::fs::create_dir_all(&root_dir).expect("create dir");
        let keypair = Keypair::generate_ed25519();
        let peer_id = keypair.public().to_peer_id();
        let mut builder = NetworkBuilder::new(keypair, true);
        builder.listen_addr("127.0.0.1:0".parse().expect("socket addr"));
        let (network, mut events, driver) = builder.build_node(root_dir).expect("build node");
        let _handle = tokio::spawn(driver.run());

        let listen_addr = loop {
            match tokio::time::timeout(Duration::from_secs(10), events.recv()).await {
                Ok(Some(NetworkEvent::NewListenAddr(addr))) => break addr,
                Ok(Some(_)) => continue,
                other => panic!("holder did not start listening: {other:?}"),
            }
        };
        let _handle = tokio::spawn(async move { while events.recv().await.is_some() {} });

        let key = record.key.clone();
        network.put_local_record(record);
        let mut stored = false;
        for _ in 0..100 {
            if network.is_record_key_present_locally(&key).await.unwrap_or(false) {
                stored = true;
                break;
            }
            tokio::time::sleep(Duration::from_millis(50)).await;
        }
        assert!(stored, "holder stored the record");
        // the holder has to outlive this function
        std::mem::forget(network);

        let has_p2p = listen_addr
            .iter()
            .any(|p| matches!(p, libp2p::multiaddr::Protocol::P2p(_)));
        if has_p2p {
            listen_addr
        } else {
            listen_addr.with(libp2p::multiaddr::Protocol::P2p(peer_id))
        }
    }

    /// A real client whose routing table holds exactly the given peers.
    async fn client_connected_to(addrs: Vec<Multiaddr>) -> Client {
        let (network, mut events, driver) = NetworkBuilder::new(Keypair::generate_ed25519(), true)
            .build_client()
            .expect("build client");
        let _handle = tokio::spawn(driver.run());
        let wanted = addrs.len();
        for addr in addrs {
            network.dial(addr).await.expect("dial holder");
        }
        loop {
            match tokio::time::timeout(Duration::from_secs(20), events.recv()).await {
                Ok(Some(NetworkEvent::PeerAdded(_, count))) if count >= wanted => break,
                Ok(Some(_)) => continue,
                other => panic!("holders were not added to the client's routing table: {other:?}"),
            }
        }
        let _handle = tokio::spawn(async move { while events.recv().await.is_some() {} });
        Client {
            network,
            client_event_sender: Arc::new(None),
            evm_network: Default::default(),
        }
    }

    fn record_under(key: &libp2p::kad::RecordKey, pad: &Scratchpad) -> Record {
        Record {
            key: key.clone(),
            value: try_serialize_record(pad, RecordKind::Scratchpad)
                .expect("serialise")
                .to_vec(),
            publisher: None,
            expires: None,
        }
    }

    #[tokio::test(flavor = "multi_thread")]
    async fn vault_fetch_only_returns_pads_owned_and_signed_by_the_requested_key() {
        let victim_sk = VaultSecretKey::random();
        let victim_addr = ScratchpadAddress::new(victim_sk.public_key());
        let vault_key = NetworkAddress::from_scratchpad_address(victim_addr).to_record_key();
        let attacker_sk = bls::SecretKey::random();

        // the victim's genuine vault, version 1
        let mut genuine = Scratchpad::new(victim_sk.public_key(), 0);
        let _ = genuine.update_and_sign(Bytes::from_static(b"genuine vault content"), &victim_sk);
        assert!(genuine.is_valid() && genuine.count() == 1);

        // a forgery addressed to the victim: content chosen by the attacker (anybody can encrypt
        // to the victim's public key), inflated counter, signature NOT by the victim
        let mut forged = Scratchpad::new(victim_sk.public_key(), 0);
        for _ in 0..99 {
            let _ = forged.increment();
        }
        let _ = forged.update_and_sign(Bytes::from_static(b"attacker chosen content"), &attacker_sk);
        assert!(!forged.is_valid() && forged.count() == 100 && *forged.address() == victim_addr);

        // a pad validly signed by the attacker, but at the attacker's own address
        let mut foreign = Scratchpad::new(attacker_sk.public_key(), 0);
        assert!(*foreign.address() != victim_addr);

        // a second, different forgery (so that holders can disagree without any valid version)
        let mut forged_2 = Scratchpad::new(victim_sk.public_key(), 0);
        for _ in 0..49 {
            let _ = forged_2.increment();
        }
        let _ = forged_2.update_and_sign(Bytes::from_static(b"another forgery"), &attacker_sk);
        assert!(!forged_2.is_valid() && forged_2.count() == 50);

        // a pad validly signed by the attacker with a high counter, but at the attacker's address
        for _ in 0..99 {
            let _ = foreign.increment();
        }
        let _ = foreign.update_and_sign(Bytes::from_static(b"somebody else's pad"), &attacker_sk);
        assert!(foreign.is_valid() && foreign.count() == 100);

        let mut problems = Vec::new();

        // --- Control: 2 honest holders, 1 serving the (invalidly signed) forgery. ant-networking's
        // split-record handling already drops invalid pads when a valid one exists, so the genuine
        // vault is returned before and after the fix. This shows the set-up works.
        let holders = vec![
            holder(record_under(&vault_key, &genuine)).await,
            holder(record_under(&vault_key, &genuine)).await,
            holder(record_under(&vault_key, &forged)).await,
        ];
        let client = client_connected_to(holders).await;
        let (data, _) = client
            .fetch_and_decrypt_vault(&victim_sk)
            .await
            .expect("control: genuine vault is fetched");
        assert_eq!(data, Bytes::from_static(b"genuine vault content"));

        // --- Scenario 1: ONE adversarial holder among three serves, under the victim's key, a pad
        // that is validly signed by (and addressed to) ANOTHER key, with a higher counter.
        let holders = vec![
            holder(record_under(&vault_key, &genuine)).await,
            holder(record_under(&vault_key, &genuine)).await,
            holder(record_under(&vault_key, &foreign)).await,
        ];
        let client = client_connected_to(holders).await;
        match client.get_vault_from_network(&victim_sk).await {
            Ok(pad) if *pad.address() == victim_addr && pad.is_valid() => {}
            Err(_) => {}
            Ok(pad) => problems.push(format!(
                "scenario 1 (2 honest holders, 1 serving another owner's pad with counter 100): \
                 get_vault_from_network returned Ok(pad) addressed to {:?} (counter {}) instead of the requested {:?}",
                pad.address(),
                pad.count(),
                victim_addr
            )),
        }

        // --- Scenario 2: all holders serve the forgery (single-record branch)
        let holders = vec![
            holder(record_under(&vault_key, &forged)).await,
            holder(record_under(&vault_key, &forged)).await,
            holder(record_under(&vault_key, &forged)).await,
        ];
        let client = client_connected_to(holders).await;
        match client.fetch_and_decrypt_vault(&victim_sk).await {
            Err(_) => {}
            Ok((data, _)) => problems.push(format!(
                "scenario 2 (all holders serve a pad not signed by the owner): fetch_and_decrypt_vault returned Ok({:?}) as the vault content",
                String::from_utf8_lossy(&data)
            )),
        }

        // --- Scenario 3: holders disagree and no version is valid (SplitRecord branch of vault.rs)
        let holders = vec![
            holder(record_under(&vault_key, &forged)).await,
            holder(record_under(&vault_key, &forged_2)).await,
            holder(record_under(&vault_key, &forged_2)).await,
        ];
        let client = client_connected_to(holders).await;
        match client.get_vault_from_network(&victim_sk).await {
            Err(_) => {}
            Ok(pad) => problems.push(format!(
                "scenario 3 (holders disagree, no version signed by the owner): get_vault_from_network returned Ok(pad) with is_valid() = {}, counter {}",
                pad.is_valid(),
                pad.count()
            )),
        }

        assert!(problems.is_empty(), "{problems:#?}");
    }
}
