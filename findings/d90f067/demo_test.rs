
#[cfg(test)]
mod finding_port_range_validate_overflow {
    use super::*;

    /// "0-65535" is accepted by PortRange::parse and holds 65536 ports, a number that does not
    /// fit the u16 `count`; validate must therefore answer with an error for every count, and
    /// in particular must not crash or treat the range as holding 0 ports.
    #[test]
    fn validate_full_port_range() {
        let range = PortRange::parse("0-65535").expect("0-65535 parses");
        assert!(matches!(range, PortRange::Range(0, 65535)));

        for count in [0u16, 1, 10, u16::MAX] {
            let r = range.clone();
            let res = std::panic::catch_unwind(move || r.validate(count).map_err(|e| e.to_string()));
            match res {
                Err(_) => panic!("PortRange::parse(\"0-65535\").validate({count}) PANICKED (u16 overflow)"),
                Ok(Ok(())) => panic!("validate({count}) accepted a range of 65536 ports"),
                Ok(Err(msg)) => assert!(
                    msg.contains("(65536)"),
                    "error must report 65536 ports, got: {msg}"
                ),
            }
        }

        // neighbouring ranges keep working
        assert!(PortRange::parse("1-65535").unwrap().validate(65535).is_ok());
        assert!(PortRange::parse("0-65534").unwrap().validate(65535).is_ok());
        assert!(PortRange::parse("12000-12004").unwrap().validate(5).is_ok());
        assert!(PortRange::parse("12000-12004").unwrap().validate(4).is_err());
    }
}
