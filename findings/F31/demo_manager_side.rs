
// Supplementary (PASSES): shows, with the real `PortRange::parse` and `add_node`, that
// `antctl add --metrics-port 0` is accepted by the manager, that `--metrics-server-port 0` is what
// gets installed and that Some(0) is what gets recorded for later upgrades.
// Append to ant-node-manager/src/add_services/tests.rs and run
//   USER=root cargo test -p ant-node-manager --offline --lib c20_metrics_port_zero_is_not_installed -- --nocapture
#[tokio::test]
async fn c20_metrics_port_zero_is_not_installed() -> Result<()> {
    use std::sync::{Arc, Mutex};
    let tmp_data_dir = assert_fs::TempDir::new()?;
    let node_reg_path = tmp_data_dir.child("node_reg.json");
    let temp_dir = assert_fs::TempDir::new()?;
    let node_data_dir = temp_dir.child("data");
    node_data_dir.create_dir_all()?;
    let node_logs_dir = temp_dir.child("logs");
    node_logs_dir.create_dir_all()?;
    let antnode_download_path = temp_dir.child(ANTNODE_FILE_NAME);
    antnode_download_path.write_binary(b"fake antnode bin")?;
    let mut node_registry = NodeRegistry {
        auditor: None,
        faucet: None,
        save_path: node_reg_path.to_path_buf(),
        nat_status: None,
        nodes: vec![],
        environment_variables: None,
        daemon: None,
    };
    let installed: Arc<Mutex<Vec<ServiceInstallCtx>>> = Arc::new(Mutex::new(vec![]));
    let installed_clone = Arc::clone(&installed);
    let mut mock_service_control = MockServiceControl::new();
    mock_service_control
        .expect_get_available_port()
        .returning(|| Ok(8081));
    mock_service_control
        .expect_install()
        .times(0..=1)
        .returning(move |ctx, _| {
            installed_clone.lock().unwrap().push(ctx);
            Ok(())
        });
    let res = add_node(
        AddNodeServiceOptions {
            auto_restart: false,
            auto_set_nat_flags: false,
            count: None,
            delete_antnode_src: true,
            enable_metrics_server: false,
            env_variables: None,
            home_network: false,
            log_format: None,
            max_archived_log_files: None,
            max_log_files: None,
            metrics_port: Some(PortRange::parse("0")?),
            network_id: None,
            node_ip: None,
            node_port: None,
            owner: None,
            peers_args: PeersArgs::default(),
            rpc_address: None,
            rpc_port: None,
            antnode_dir_path: temp_dir.to_path_buf(),
            antnode_src_path: antnode_download_path.to_path_buf(),
            service_data_dir_path: node_data_dir.to_path_buf(),
            service_log_dir_path: node_logs_dir.to_path_buf(),
            upnp: false,
            user: Some(get_username()),
            user_mode: false,
            version: "0.96.4".to_string(),
            evm_network: EvmNetwork::ArbitrumOne,
            rewards_address: RewardsAddress::from_str(
                "0x03B770D9cD32077cC0bF330c13C114a87643B124",
            )?,
        },
        &mut node_registry,
        &mock_service_control,
        VerbosityLevel::Normal,
    )
    .await;
    // antnode rejects `--metrics-server-port 0` (without --enable-metrics-server, which the manager never writes):
    // either the manager refuses the request, or what it installs must not be that argument
    if res.is_ok() {
        let ctx = installed.lock().unwrap().pop().unwrap();
        let pos = ctx.args.iter().position(|a| a == "--metrics-server-port");
        assert!(
            pos.map(|p| ctx.args[p + 1] != OsString::from("0")).unwrap_or(true),
            "installed `--metrics-server-port 0`, which antnode rejects: {:?}",
            ctx.args
        );
    }
    Ok(())
}
