
// ---------------------------------------------------------------------------------------------
// C20 demo 3: `antctl add --metrics-port 0` is accepted by the manager and written as
// `--metrics-server-port 0`, which antnode refuses to parse.
//
// Install: append this file to ant-node/src/bin/antnode/main.rs and run
//   CARGO_TARGET_DIR=/tmp/wt/C20hunt/target \
//     cargo test -p ant-node --offline --bin antnode c20_metrics_port_zero
//
// Manager side (by reading; all in ant-node-manager): `PortRange::parse("0")` returns
// `PortRange::Single(0)`, `validate(1)` and `check_port_availability` pass, and `add_node` copies
// the value into `InstallNodeServiceCtxBuilder::metrics_port` and `NodeServiceData::metrics_port`
// without any check; both writers then emit `--metrics-server-port 0`. (`--node-port 0` goes the
// same way and is fine: antnode reads `--port 0` as "pick a port".)
//
// Node side: `Opt::enable_metrics_server` carries
// `required_if_eq("metrics_server_port", "0")`, so an *explicit* `--metrics-server-port 0`
// without `--enable-metrics-server` (which the manager never writes) is a usage error. The service
// can never start, neither after installation nor after any upgrade.
//
// The test uses the real manager writer (`build_upgrade_install_context`, which emits the same
// option as the install builder) and antnode's real `Opt`.
// ---------------------------------------------------------------------------------------------
#[cfg(test)]
mod c20_metrics_port_zero {
    use super::*;
    use ant_service_management::{
        rpc::RpcClient, NodeService, NodeServiceData, ServiceStateActions, ServiceStatus,
        UpgradeOptions,
    };
    use std::{ffi::OsString, str::FromStr};

    fn manager_args(metrics_port: Option<u16>) -> Vec<OsString> {
        let rpc_socket_addr = SocketAddr::new(IpAddr::V4(Ipv4Addr::new(127, 0, 0, 1)), 8081);
        let mut service_data = NodeServiceData {
            antnode_path: PathBuf::from("/var/antctl/services/antnode1/antnode"),
            auto_restart: false,
            connected_peers: None,
            data_dir_path: PathBuf::from("/var/antctl/services/antnode1"),
            evm_network: EvmNetwork::ArbitrumOne,
            home_network: false,
            listen_addr: None,
            log_dir_path: PathBuf::from("/var/log/antnode/antnode1"),
            log_format: None,
            max_archived_log_files: None,
            max_log_files: None,
            metrics_port,
            owner: None,
            network_id: None,
            node_ip: None,
            node_port: None,
            number: 1,
            peer_id: None,
            peers_args: PeersArgs::default(),
            pid: None,
            rewards_address: RewardsAddress::from_str("0x03B770D9cD32077cC0bF330c13C114a87643B124")
                .unwrap(),
            reward_balance: None,
            rpc_socket_addr,
            service_name: "antnode1".to_string(),
            status: ServiceStatus::Added,
            upnp: false,
            user: Some("ant".to_string()),
            user_mode: false,
            version: "0.1.0".to_string(),
        };
        let service = NodeService::new(
            &mut service_data,
            Box::new(RpcClient::from_socket_addr(rpc_socket_addr)),
        );
        service
            .build_upgrade_install_context(UpgradeOptions {
                auto_restart: false,
                env_variables: None,
                force: false,
                start_service: true,
                target_bin_path: PathBuf::from("/tmp/antnode"),
                target_version: "0.2.0".parse().unwrap(),
            })
            .unwrap()
            .args
    }

    fn antnode_parse(args: &[OsString]) -> std::result::Result<Opt, clap::Error> {
        let mut argv = vec![OsString::from("antnode")];
        argv.extend(args.iter().cloned());
        Opt::try_parse_from(argv)
    }

    #[test]
    fn c20_metrics_port_zero_is_accepted_by_antnode() {
        // Control: an ordinary metrics port is accepted and read back as written.
        let args = manager_args(Some(13000));
        let opt = antnode_parse(&args).expect("an ordinary metrics port is accepted");
        assert_eq!(opt.metrics_server_port, 13000);

        // `antctl add --metrics-port 0`
        let args = manager_args(Some(0));
        println!("argument list written by the manager: {args:?}");
        match antnode_parse(&args) {
            Ok(opt) => assert_eq!(opt.metrics_server_port, 0),
            Err(err) => panic!("antnode rejects the argument list written by the manager:\n{err}"),
        }
    }
}
