    // C10 demo 1: the payment counter that survives a restart must equal the payments received.
    // Two payments handled back to back on a runtime worker thread (which is where
    // `SwarmDriver::run` handles `LocalSwarmCmd::PaymentReceived` in a node) each spawn their own
    // detached task writing the counter value captured at spawn time; nothing orders those tasks.
    #[tokio::test(flavor = "multi_thread", worker_threads = 1)]
    async fn c10_payment_count_survives_restart_after_two_quick_payments() {
        let handle = tokio::spawn(async {
            let temp_dir = std::env::temp_dir();
            let unique_dir_name = uuid::Uuid::new_v4().to_string();
            let storage_dir = temp_dir.join(unique_dir_name);
            fs::create_dir_all(&storage_dir).expect("Failed to create directory");
            let historic_quote_dir = storage_dir.clone();

            let store_config = NodeRecordStoreConfig {
                storage_dir,
                historic_quote_dir,
                ..Default::default()
            };
            let self_id = PeerId::random();
            let (network_event_sender, _) = mpsc::channel(1);
            let (swarm_cmd_sender, _) = mpsc::channel(1);

            let mut store = NodeRecordStore::with_config(
                self_id,
                store_config.clone(),
                network_event_sender.clone(),
                swarm_cmd_sender.clone(),
            );
            // let the flush spawned by `with_config` complete
            sleep(Duration::from_millis(500)).await;

            // two payments, handled one after the other without yielding in between
            store.payment_received();
            store.payment_received();
            assert_eq!(2, store.received_payment_count);

            // wait for both detached flush tasks to have run
            sleep(Duration::from_millis(2000)).await;

            // restart
            drop(store);
            let new_store = NodeRecordStore::with_config(
                self_id,
                store_config,
                network_event_sender,
                swarm_cmd_sender,
            );

            assert_eq!(
                2, new_store.received_payment_count,
                "two payments were received before the restart"
            );
        });
        handle.await.expect("test task panicked");
    }
