    // Demo for c6908cb: the order of one caller's local swarm commands is kept only while the
    // channel has room. With the channel full (the driver busy -- the case the function logs as
    // "SwarmCmd channel is full") the command is still parked in a detached task, and the next
    // command of the same caller, issued after the driver has taken one command off, goes through
    // try_send at once and overtakes it: the history of the commit message (put_local_record of
    // one delivery, then get_local_record of the next delivery for the same key) reaches the
    // driver as get, put.
    #[tokio::test]
    async fn local_swarm_cmds_of_one_caller_keep_their_order_when_the_channel_is_full() {
        let (cmd_sender, mut cmd_receiver) = mpsc::channel::<LocalSwarmCmd>(1);
        let key = RecordKey::new(b"the record key");

        // the driver is busy: one command is waiting and the channel (capacity 1 here) is full
        send_local_swarm_cmd(
            cmd_sender.clone(),
            LocalSwarmCmd::TriggerIntervalReplication,
        );

        // delivery 1 stores the record: put_local_record
        send_local_swarm_cmd(
            cmd_sender.clone(),
            LocalSwarmCmd::PutLocalRecord {
                record: Record::new(key.clone(), b"counter 3".to_vec()),
            },
        );

        // the driver takes the waiting command off the channel
        let taken = cmd_receiver.try_recv().expect("the first command is there");
        assert!(matches!(taken, LocalSwarmCmd::TriggerIntervalReplication));

        // delivery 2 for the same key starts by reading what the node holds: get_local_record
        let (sender, _receiver) = oneshot::channel();
        send_local_swarm_cmd(
            cmd_sender.clone(),
            LocalSwarmCmd::GetLocalRecord {
                key: key.clone(),
                sender,
            },
        );

        // the driver handles what reaches it, in the order it reaches it
        let next = cmd_receiver.recv().await.expect("a command");
        let after = cmd_receiver.recv().await.expect("a command");
        assert!(
            matches!(next, LocalSwarmCmd::PutLocalRecord { .. }),
            "the put of delivery 1 was issued first but the driver got {next:?} before it"
        );
        assert!(
            matches!(after, LocalSwarmCmd::GetLocalRecord { .. }),
            "the get of delivery 2 was issued second but the driver got {after:?} in its place"
        );
    }
