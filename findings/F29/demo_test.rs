// C18 demo 3: BootstrapCacheStore::load_cache_data only checks that the file is CacheData-shaped
// JSON. Entries whose address carries no peer id, is not an address add_addr() would ever accept
// (craft_valid_multiaddr rejects it), or is filed under a different peer than the one it names,
// are loaded as they are. They are handed out as bootstrap addresses and every later
// sync_and_flush_to_disk merges them back into the shared cache file, so the damaged entries are
// never ignored (update_addr_status cannot even reach an address without /p2p, so it only goes
// away by expiry).
//
// Install: copy to ant-bootstrap/tests/c18_demo3.rs
// Run:     cargo test -p ant-bootstrap --offline --test c18_demo3

use ant_bootstrap::{
    craft_valid_multiaddr, multiaddr_get_peer_id, BootstrapCacheConfig, BootstrapCacheStore,
    PeersArgs,
};
use libp2p::{Multiaddr, PeerId};
use tempfile::TempDir;

fn quic(ip: &str, peer: &PeerId) -> Multiaddr {
    format!("/ip4/{ip}/udp/4000/quic-v1/p2p/{peer}")
        .parse()
        .unwrap()
}

/// Write a genuine cache file holding three peers, then damage the three address strings in place
/// (the file stays valid JSON of the expected shape, with our own network_version):
///   p1: peer id stripped from the address
///   p2: address turned into an ip6/dns-style address that add_addr() would refuse
///   p3: address names a different peer than the map key it is stored under
fn write_damaged_cache(cfg: &BootstrapCacheConfig) {
    let (p1, p2, p3, other) = (
        PeerId::random(),
        PeerId::random(),
        PeerId::random(),
        PeerId::random(),
    );
    let mut s = BootstrapCacheStore::new(cfg.clone()).unwrap();
    s.add_addr(quic("10.0.0.1", &p1));
    s.add_addr(quic("10.0.0.2", &p2));
    s.add_addr(quic("10.0.0.3", &p3));
    s.sync_and_flush_to_disk(true).unwrap();

    let text = std::fs::read_to_string(&cfg.cache_file_path).unwrap();
    let damaged = text
        .replace(
            &format!("\"/ip4/10.0.0.1/udp/4000/quic-v1/p2p/{p1}\""),
            "\"/ip4/10.0.0.1/udp/4000/quic-v1\"",
        )
        .replace(
            &format!("\"/ip4/10.0.0.2/udp/4000/quic-v1/p2p/{p2}\""),
            &format!("\"/ip6/::1/tcp/4000/p2p/{p2}\""),
        )
        .replace(
            &format!("\"/ip4/10.0.0.3/udp/4000/quic-v1/p2p/{p3}\""),
            &format!("\"/ip4/10.0.0.3/udp/4000/quic-v1/p2p/{other}\""),
        );
    assert_ne!(text, damaged);
    std::fs::write(&cfg.cache_file_path, damaged).unwrap();
}

/// What the property demands of every cached entry: the address carries a peer id, is in the
/// dialable form add_addr() stores (craft_valid_multiaddr is the identity on it), and is filed
/// under the peer it names.
fn check_entry(key: Option<&PeerId>, addr: &Multiaddr) -> Result<(), String> {
    let Some(peer) = multiaddr_get_peer_id(addr) else {
        return Err(format!("{addr} carries no peer id"));
    };
    if craft_valid_multiaddr(addr, false).as_ref() != Some(addr) {
        return Err(format!("{addr} is not an address the cache accepts as dialable"));
    }
    if let Some(key) = key {
        if *key != peer {
            return Err(format!("{addr} is filed under peer {key}"));
        }
    }
    Ok(())
}

#[tokio::test]
async fn damaged_entries_are_not_handed_out_as_bootstrap_addresses() {
    let tmp = TempDir::new().unwrap();
    let cfg = BootstrapCacheConfig::empty().with_cache_path(tmp.path().join("cache.json"));
    write_damaged_cache(&cfg);

    std::env::remove_var(ant_bootstrap::ANT_PEERS_ENV);
    let args = PeersArgs {
        first: false,
        addrs: vec![],
        network_contacts_url: vec![],
        local: false,
        disable_mainnet_contacts: true,
        ignore_cache: false,
        bootstrap_cache_dir: None,
    };
    let got = args
        .get_addrs(Some(cfg.clone()), None)
        .await
        .unwrap_or_default();
    let bad: Vec<String> = got
        .iter()
        .filter_map(|a| check_entry(None, a).err())
        .collect();
    assert!(bad.is_empty(), "bootstrap addresses from cache: {bad:#?}");
}

#[test]
fn damaged_entries_are_not_merged_back_into_the_cache() {
    let tmp = TempDir::new().unwrap();
    let cfg = BootstrapCacheConfig::empty().with_cache_path(tmp.path().join("cache.json"));
    write_damaged_cache(&cfg);

    // An ordinary node flushes its own (clean) cache, with clean-up.
    let mut ours = BootstrapCacheStore::new(cfg.clone()).unwrap();
    ours.add_addr(quic("10.0.0.9", &PeerId::random()));
    ours.sync_and_flush_to_disk(true).unwrap();

    // The cache after merge + clean-up + save + load.
    let data = BootstrapCacheStore::load_cache_data(&cfg).expect("cache file loads");
    let mut bad = vec![];
    for (peer, addrs) in data.peers.iter() {
        for a in addrs.0.iter() {
            if let Err(e) = check_entry(Some(peer), &a.addr) {
                bad.push(e);
            }
        }
    }
    assert!(
        bad.is_empty(),
        "cache holds ill-formed entries after merge and clean-up: {bad:#?}"
    );
}
