// C10 demo 1: at capacity, an UPDATE of a record the node already holds evicts
// the farthest record although no slot is needed.
//
// Install: append this file to ant-networking/src/record_store.rs
// Run:     cargo test -p ant-networking --offline --lib c10_demo1
#[cfg(test)]
mod c10_demo1 {
    use super::*;
    use ant_protocol::storage::try_serialize_record;
    use bytes::Bytes;
    use std::collections::BTreeSet;

    fn chunk_value(fill: u8) -> Vec<u8> {
        try_serialize_record(&Bytes::from(vec![fill; 50]), RecordKind::Chunk)
            .expect("serialise")
            .to_vec()
    }

    #[tokio::test]
    async fn c10_demo1_update_of_held_record_at_capacity_must_not_evict() {
        let max_records = 3;
        let storage_dir = std::env::temp_dir().join(format!("c10_demo1_{}", uuid::Uuid::new_v4()));
        fs::create_dir_all(&storage_dir).expect("create dir");
        let config = NodeRecordStoreConfig {
            max_records,
            storage_dir: storage_dir.clone(),
            historic_quote_dir: storage_dir,
            ..Default::default()
        };
        let self_id = PeerId::random();
        let self_addr = NetworkAddress::from_peer(self_id);
        let (network_event_sender, _rx1) = mpsc::channel(1);
        let (swarm_cmd_sender, _rx2) = mpsc::channel(100);
        let mut store =
            NodeRecordStore::with_config(self_id, config, network_event_sender, swarm_cmd_sender);

        // Fill the store exactly to capacity; every write is acknowledged, so
        // there are no writes in flight.
        let mut keys: Vec<Key> = (0..max_records)
            .map(|_| NetworkAddress::from_peer(PeerId::random()).to_record_key())
            .collect();
        for key in &keys {
            let record = Record {
                key: key.clone(),
                value: chunk_value(1),
                publisher: None,
                expires: None,
            };
            let record_type = RecordType::NonChunk(XorName::from_content(&record.value));
            assert!(store.put_verified(record, record_type.clone()).is_ok());
            store.mark_as_stored(key.clone(), record_type);
        }
        keys.sort_by_key(|k| self_addr.distance(&NetworkAddress::from_record_key(k)));
        let closest = keys[0].clone();
        let farthest = keys[max_records - 1].clone();
        assert_eq!(store.get_farthest(), Some(farthest.clone()));

        let held_before: BTreeSet<Vec<u8>> = store
            .record_addresses_ref()
            .keys()
            .map(|k| k.to_vec())
            .collect();
        assert_eq!(held_before.len(), max_records);

        // New version of a record the node ALREADY holds (e.g. a register or
        // scratchpad update). It needs no extra slot.
        let update = Record {
            key: closest.clone(),
            value: chunk_value(2),
            publisher: None,
            expires: None,
        };
        let update_type = RecordType::NonChunk(XorName::from_content(&update.value));
        assert!(store.put_verified(update, update_type.clone()).is_ok());
        store.mark_as_stored(closest.clone(), update_type);

        let held_after: BTreeSet<Vec<u8>> = store
            .record_addresses_ref()
            .keys()
            .map(|k| k.to_vec())
            .collect();

        // Property C10: at capacity a record is evicted only to make room for a
        // closer record the node does not yet hold. Updating a held record must
        // leave the held set as it was.
        assert!(
            store.contains(&farthest),
            "updating an already-held record evicted the farthest record {:?}",
            PrettyPrintRecordKey::from(&farthest)
        );
        assert_eq!(held_before, held_after, "held set changed by an in-place update");
    }
}
