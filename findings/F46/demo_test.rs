// ===== (a) appended at the end of ant-cli/src/wallet/fs.rs (new test module) =====

#[cfg(test)]
mod c17_tests {
    use super::*;

    /// C17: the wallet file is stored text. A file whose content is not a private key (here: the key
    /// followed by the newline an editor appends) must make the load fail with an error, not panic.
    #[test]
    fn c17_wallet_file_that_is_not_a_private_key_is_an_error_not_a_panic() {
        let data_dir = tempfile::tempdir().expect("temp dir");
        std::env::set_var("XDG_DATA_HOME", data_dir.path());
        std::env::set_var("EVM_NETWORK", "arbitrum-one");

        // a wallet stored through the real writer
        let key = Wallet::random_private_key();
        let path = store_private_key(&key, None).expect("store the key");
        let address = PathBuf::from(&path)
            .file_name()
            .and_then(|name| name.to_str())
            .expect("file name")
            .to_string();
        assert!(load_wallet_from_address(&address).is_ok());

        for content in [format!("{key}\n"), String::new(), "not a key".to_string()] {
            std::fs::write(&path, &content).expect("overwrite the wallet file");
            let address = address.clone();
            let outcome = std::panic::catch_unwind(move || load_wallet_from_address(&address).is_ok());
            assert!(
                outcome.is_ok(),
                "load_wallet_from_address panicked on a wallet file holding {content:?}"
            );
            assert_eq!(outcome.ok(), Some(false));
        }
    }
}

