
// C17 demonstration (appended to ant-cli/src/commands/wallet.rs).
// `ant wallet export` reads the stored key file of the selected wallet and parses it with
// `Wallet::new_from_private_key(..).expect("Infallible")`. The file is stored text: a key followed
// by a newline (what an editor leaves behind) has to give a value or an error, not a panic.
#[cfg(test)]
mod c17_tests {
    use super::*;

    #[test]
    fn c17_export_of_a_stored_key_with_a_trailing_newline_does_not_panic() {
        // the wallets folder is <data dir>/autonomi/client/wallets (Linux: $XDG_DATA_HOME)
        let data_dir = tempfile::tempdir().expect("temp dir");
        std::env::set_var("XDG_DATA_HOME", data_dir.path());
        std::env::set_var("HOME", data_dir.path());

        let key = Wallet::random_private_key();
        let address = Wallet::new_from_private_key(DUMMY_NETWORK, &key)
            .expect("a fresh key is valid")
            .address()
            .to_string();
        let wallets = data_dir
            .path()
            .join("autonomi")
            .join("client")
            .join("wallets");
        std::fs::create_dir_all(&wallets).expect("wallets folder");
        // the one stored wallet: the plain key and a newline
        std::fs::write(wallets.join(&address), format!("{key}\n")).expect("key file");

        let outcome = std::panic::catch_unwind(|| export().map_err(|err| err.to_string()));
        assert!(
            outcome.is_ok(),
            "`wallet export` panicked on the stored key file instead of returning a value or an error"
        );
    }
}
