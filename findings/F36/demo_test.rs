// C19 demonstration 2.
//
// History: `add` of three services where the install of the second one fails (the registry then
// records antnode1 and antnode3; `add_node` itself documents that such gaps exist), followed by the
// daemon's restart of antnode1 without retaining the peer id, which adds a fresh service.
//
// The property promises that an added service never receives a name or data directory already
// recorded for another service. `restart_node_service` numbers the new service `nodes.len() + 1`,
// which is 3 here, so the new service gets the name, the data directory and the binary path
// recorded for antnode3.
//
// `restart_node_service` talks to the real `ServiceController`. To keep the real installer from
// touching the machine, the test empties PATH, so that the `service-manager` crate finds neither
// systemctl nor rc-service and the install step returns an error. Everything before the install
// step is the unmodified production code and runs against temporary directories only.

use ant_bootstrap::PeersArgs;
use ant_evm::{EvmNetwork, RewardsAddress};
use ant_node_manager::{
    add_services::{add_node, config::AddNodeServiceOptions},
    rpc::restart_node_service,
    VerbosityLevel,
};
use ant_service_management::{
    control::ServiceControl,
    error::{Error as ServiceControlError, Result as ServiceControlResult},
    NodeRegistry, ServiceStatus,
};
use assert_fs::prelude::*;
use color_eyre::Result;
use libp2p::PeerId;
use service_manager::ServiceInstallCtx;
use std::{path::Path, str::FromStr};

/// A service manager whose install of `antnode2` fails; everything else succeeds.
struct InstallOfSecondServiceFails;

impl ServiceControl for InstallOfSecondServiceFails {
    fn create_service_user(&self, _username: &str) -> ServiceControlResult<()> {
        Ok(())
    }
    fn get_available_port(&self) -> ServiceControlResult<u16> {
        static NEXT: std::sync::atomic::AtomicU16 = std::sync::atomic::AtomicU16::new(40000);
        Ok(NEXT.fetch_add(1, std::sync::atomic::Ordering::SeqCst))
    }
    fn install(&self, install_ctx: ServiceInstallCtx, _user_mode: bool) -> ServiceControlResult<()> {
        if install_ctx.label.to_string() == "antnode2" {
            return Err(ServiceControlError::Io(std::io::Error::new(
                std::io::ErrorKind::Other,
                "injected install failure",
            )));
        }
        Ok(())
    }
    fn get_process_pid(&self, bin_path: &Path) -> ServiceControlResult<u32> {
        Err(ServiceControlError::ServiceProcessNotFound(
            bin_path.to_string_lossy().to_string(),
        ))
    }
    fn start(&self, _service_name: &str, _user_mode: bool) -> ServiceControlResult<()> {
        Ok(())
    }
    fn stop(&self, _service_name: &str, _user_mode: bool) -> ServiceControlResult<()> {
        Ok(())
    }
    fn uninstall(&self, _service_name: &str, _user_mode: bool) -> ServiceControlResult<()> {
        Ok(())
    }
    fn wait(&self, _delay: u64) {}
}

#[tokio::test]
async fn c19_restart_without_retained_peer_id_should_not_reuse_a_recorded_name_or_data_dir(
) -> Result<()> {
    let temp_dir = assert_fs::TempDir::new()?;
    let node_reg_path = temp_dir.child("node_reg.json");
    let node_data_dir = temp_dir.child("data");
    node_data_dir.create_dir_all()?;
    let node_logs_dir = temp_dir.child("logs");
    node_logs_dir.create_dir_all()?;
    let antnode_src = temp_dir.child("antnode");
    antnode_src.write_binary(b"antnode binary, version 0.96.4")?;

    let mut node_registry = NodeRegistry::load(&node_reg_path.to_path_buf())?;

    // add --count 3, the install of the second service fails
    let res = add_node(
        AddNodeServiceOptions {
            antnode_dir_path: temp_dir.to_path_buf(),
            antnode_src_path: antnode_src.to_path_buf(),
            auto_restart: false,
            auto_set_nat_flags: false,
            count: Some(3),
            delete_antnode_src: false,
            enable_metrics_server: false,
            env_variables: None,
            evm_network: EvmNetwork::ArbitrumOne,
            home_network: false,
            log_format: None,
            max_archived_log_files: None,
            max_log_files: None,
            metrics_port: None,
            network_id: None,
            node_ip: None,
            node_port: None,
            owner: None,
            peers_args: PeersArgs::default(),
            rewards_address: RewardsAddress::from_str(
                "0x03B770D9cD32077cC0bF330c13C114a87643B124",
            )?,
            rpc_address: None,
            rpc_port: None,
            service_data_dir_path: node_data_dir.to_path_buf(),
            service_log_dir_path: node_logs_dir.to_path_buf(),
            upnp: false,
            user: Some(std::env::var("USER")?),
            user_mode: false,
            version: "0.96.4".to_string(),
        },
        &mut node_registry,
        &InstallOfSecondServiceFails,
        VerbosityLevel::Minimal,
    )
    .await;
    assert!(res.is_err(), "one of the three installs was made to fail");
    let names: Vec<_> = node_registry
        .nodes
        .iter()
        .map(|n| n.service_name.clone())
        .collect();
    assert_eq!(names, vec!["antnode1", "antnode3"]);

    // antnode1 has been started and stopped once: it has a peer id and is at Stopped.
    let peer_id = PeerId::from_str("12D3KooWS2tpXGGTmg2AHFiDh57yPQnat49YHnyqoggzXZWpqkCR")?;
    node_registry.nodes[0].peer_id = Some(peer_id);
    node_registry.nodes[0].status = ServiceStatus::Stopped;
    // antnode3 runs its own binary (say it has been upgraded on its own).
    let antnode3_bin = node_registry.nodes[1].antnode_path.clone();
    let antnode3_data_dir = node_registry.nodes[1].data_dir_path.clone();
    std::fs::write(&antnode3_bin, b"antnode binary, version 0.97.0, belongs to antnode3")?;
    node_registry.save()?;

    // Keep the real service manager away from the machine: no systemctl, no rc-service.
    let empty_path_dir = temp_dir.child("empty-path");
    empty_path_dir.create_dir_all()?;
    std::env::set_var("PATH", empty_path_dir.path());

    let recorded_names: Vec<String> = names.clone();
    let res = restart_node_service(&mut node_registry, peer_id, false).await;
    let outcome = match &res {
        Ok(()) => "Ok(())".to_string(),
        Err(err) => format!("Err({err})"),
    };
    println!("restart_node_service returned {outcome}");

    assert_eq!(
        String::from_utf8_lossy(&std::fs::read(&antnode3_bin)?),
        "antnode binary, version 0.97.0, belongs to antnode3",
        "the binary in antnode3's data directory was overwritten by the service added by the restart"
    );
    // If the restart went through, the new record is the last one.
    if res.is_ok() {
        let new = node_registry.nodes.last().unwrap();
        assert!(
            !recorded_names.contains(&new.service_name),
            "the added service received the recorded name {}",
            new.service_name
        );
    }
    // Whether or not it went through, no recorded name may have been handed out.
    for recorded in &recorded_names {
        assert!(
            !outcome.contains(&format!("\"{recorded}\"")) || recorded == "antnode1",
            "the added service received the name {recorded}, already recorded for another service \
             (data dir {antnode3_data_dir:?}): {outcome}"
        );
    }
    Ok(())
}
