
// C17 demonstration: a registry that records service number 65534 (a boundary value of the stored
// `number: u16` field) followed by a plain `antctl add` (count 1). The new service is antnode65535,
// which fits in u16, so `add_node` must return Ok (or an error) -- it must not overflow.
#[tokio::test]
async fn c17_add_node_after_service_number_65534_must_not_overflow() -> Result<()> {
    let tmp_data_dir = assert_fs::TempDir::new()?;
    let node_reg_path = tmp_data_dir.child("node_reg.json");

    let evm_network = EvmNetwork::Custom(CustomNetwork {
        rpc_url_http: "http://localhost:8545".parse()?,
        payment_token_address: RewardsAddress::from_str(
            "0x5FbDB2315678afecb367f032d93F642f64180aa3",
        )?,
        data_payments_address: RewardsAddress::from_str(
            "0x8464135c8F25Da09e49BC8782676a84730C318bC",
        )?,
    });

    let node_registry = NodeRegistry {
        auditor: None,
        faucet: None,
        save_path: node_reg_path.to_path_buf(),
        nat_status: None,
        nodes: vec![NodeServiceData {
            auto_restart: false,
            connected_peers: None,
            data_dir_path: PathBuf::from("/var/antctl/services/antnode65534"),
            evm_network: evm_network.clone(),
            home_network: false,
            listen_addr: None,
            log_format: None,
            log_dir_path: PathBuf::from("/var/log/antnode/antnode65534"),
            max_archived_log_files: None,
            max_log_files: None,
            metrics_port: None,
            network_id: None,
            node_ip: None,
            node_port: None,
            number: 65534,
            owner: None,
            peer_id: None,
            peers_args: PeersArgs::default(),
            pid: None,
            rewards_address: RewardsAddress::from_str(
                "0x03B770D9cD32077cC0bF330c13C114a87643B124",
            )?,
            reward_balance: Some(AttoTokens::zero()),
            rpc_socket_addr: SocketAddr::new(IpAddr::V4(Ipv4Addr::new(127, 0, 0, 1)), 8081),
            antnode_path: PathBuf::from("/var/antctl/services/antnode65534/antnode"),
            service_name: "antnode65534".to_string(),
            status: ServiceStatus::Added,
            upnp: false,
            user: Some("ant".to_string()),
            user_mode: false,
            version: "0.98.1".to_string(),
        }],
        environment_variables: None,
        daemon: None,
    };
    // the same registry, as it is read back from its file
    node_registry.save()?;
    let mut node_registry = NodeRegistry::load(&node_registry.save_path)?;
    assert_eq!(node_registry.nodes[0].number, 65534);

    let temp_dir = assert_fs::TempDir::new()?;
    let node_data_dir = temp_dir.child("data");
    node_data_dir.create_dir_all()?;
    let node_logs_dir = temp_dir.child("logs");
    node_logs_dir.create_dir_all()?;
    let antnode_download_path = temp_dir.child(ANTNODE_FILE_NAME);
    antnode_download_path.write_binary(b"fake antnode bin")?;

    let mut mock_service_control = MockServiceControl::new();
    mock_service_control
        .expect_get_available_port()
        .returning(|| Ok(8083));
    // exactly one service is asked for
    mock_service_control
        .expect_install()
        .times(1)
        .returning(|_, _| Ok(()));

    let added = add_node(
        AddNodeServiceOptions {
            auto_restart: false,
            auto_set_nat_flags: false,
            count: None,
            delete_antnode_src: false,
            enable_metrics_server: false,
            env_variables: None,
            home_network: false,
            log_format: None,
            max_archived_log_files: None,
            max_log_files: None,
            metrics_port: None,
            network_id: None,
            node_ip: None,
            node_port: None,
            owner: None,
            peers_args: PeersArgs::default(),
            rpc_address: None,
            rpc_port: None,
            antnode_dir_path: temp_dir.to_path_buf(),
            antnode_src_path: antnode_download_path.to_path_buf(),
            service_data_dir_path: node_data_dir.to_path_buf(),
            service_log_dir_path: node_logs_dir.to_path_buf(),
            upnp: false,
            user: Some(get_username()),
            user_mode: true,
            version: "0.96.4".to_string(),
            evm_network,
            rewards_address: RewardsAddress::from_str(
                "0x03B770D9cD32077cC0bF330c13C114a87643B124",
            )?,
        },
        &mut node_registry,
        &mock_service_control,
        VerbosityLevel::Normal,
    )
    .await?;

    assert_eq!(added, vec!["antnode65535".to_string()]);
    assert_eq!(node_registry.nodes.len(), 2);
    assert_eq!(node_registry.nodes[1].number, 65535);
    Ok(())
}
