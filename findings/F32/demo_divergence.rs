    // C06 finding 2: two replicas that received the same set of valid ops in a different
    // order present different current values, and merging them does not repair it.
    // (appended inside `mod tests` of ant-registers/src/register.rs)
    #[test]
    fn c06_2_same_valid_ops_in_any_order_give_same_current_values() -> eyre::Result<()> {
        use crdts::merkle_reg::Node as MerkleDagEntry;

        let owner_sk = SecretKey::random();
        let owner = owner_sk.public_key();
        let meta: XorName = xor_name::rand::random();
        let address = RegisterAddress { meta, owner };
        let empty = create_reg_replica_with(meta, Some(owner_sk.clone()), None);

        // Three ops, every one properly signed by the permitted writer (the owner):
        //   op1: "v1", no children
        //   op_a: "v2" on top of op1
        //   op_b: value = <hash of op1> ++ "v2", no children
        let mut w = RegisterCrdt::new(address);
        let (h1, _, node1) = w.write(b"v1".to_vec(), &BTreeSet::new())?;
        let op1 = RegisterOp::new(address, node1, &owner_sk);
        let node_a = MerkleDagEntry {
            children: [h1.0].into_iter().collect(),
            value: b"v2".to_vec(),
        };
        let mut value_b = h1.0.to_vec();
        value_b.extend_from_slice(b"v2");
        let node_b = MerkleDagEntry {
            children: BTreeSet::new(),
            value: value_b,
        };
        let op_a = RegisterOp::new(address, node_a, &owner_sk);
        let op_b = RegisterOp::new(address, node_b, &owner_sk);
        assert_ne!(op_a, op_b);

        // Replica X receives op1, op_a, op_b; replica Y receives op1, op_b, op_a.
        let deliver = |order: [&RegisterOp; 3]| -> eyre::Result<(SignedRegister, RegisterCrdt)> {
            let mut signed = empty.clone();
            let mut crdt = RegisterCrdt::new(address);
            for op in order {
                signed.add_op(op.clone())?; // every op is accepted as valid
                crdt.apply_op(op.clone())?;
            }
            signed.verify()?;
            Ok((signed, crdt))
        };
        let (signed_x, mut crdt_x) = deliver([&op1, &op_a, &op_b])?;
        let (signed_y, mut crdt_y) = deliver([&op1, &op_b, &op_a])?;

        // Same operation sets...
        assert_eq!(signed_x.ops(), signed_y.ops());
        assert_eq!(signed_x.ops().len(), 3);

        // ...so the current values must be the same.
        let values = |c: &RegisterCrdt| -> Vec<Vec<u8>> {
            c.read().into_iter().map(|(_, v)| v).collect()
        };
        let (before_x, before_y) = (values(&crdt_x), values(&crdt_y));

        // and merging the two replicas both ways must certainly make them equal.
        let (cx, cy) = (crdt_x.clone(), crdt_y.clone());
        crdt_x.merge(cy);
        crdt_y.merge(cx);
        let (after_x, after_y) = (values(&crdt_x), values(&crdt_y));

        assert!(
            before_x == before_y && after_x == after_y,
            "replicas with identical op sets present different current values.\n \
             after delivery: X = {before_x:?}\n                 Y = {before_y:?}\n \
             after merging each into the other: X = {after_x:?}\n                                    Y = {after_y:?}"
        );
        Ok(())
    }
