    // C06 finding 1: a party holding no key can turn a writer's signed op into a
    // different op that the register accepts as authorised.
    // (appended inside `mod tests` of ant-registers/src/register.rs)
    #[test]
    fn c06_1_op_forged_from_a_writers_signature_is_rejected() -> eyre::Result<()> {
        use crdts::merkle_reg::Node as MerkleDagEntry;

        let owner_sk = SecretKey::random();
        let owner = owner_sk.public_key();
        let meta: XorName = xor_name::rand::random();
        let address = RegisterAddress { meta, owner };

        // The owner is the only permitted writer.
        let empty = create_reg_replica_with(meta, Some(owner_sk.clone()), None);
        assert!(!empty.base_register().permissions().can_anyone_write());

        // The owner writes "v1", then "v2" on top of "v1" (the usual update).
        let mut owner_crdt = RegisterCrdt::new(address);
        let (h1, _, node1) = owner_crdt.write(b"v1".to_vec(), &BTreeSet::new())?;
        let op1 = RegisterOp::new(address, node1, &owner_sk);
        let (_h2, _, node2) = owner_crdt.write(b"v2".to_vec(), &[h1].into_iter().collect())?;
        let op2 = RegisterOp::new(address, node2.clone(), &owner_sk);

        // The attacker has seen op2 (ops are public) and owns no secret key.
        // It builds a different DAG node: no children, value = <hash of v1> ++ "v2",
        // and re-uses the owner's public key and the signature found in op2.
        let mut forged_value = h1.0.to_vec();
        forged_value.extend_from_slice(b"v2");
        let forged_node = MerkleDagEntry {
            children: BTreeSet::new(),
            value: forged_value.clone(),
        };
        assert_ne!(forged_node, node2, "the forged node is a different operation");
        let forged = RegisterOp {
            address,
            crdt_op: forged_node,
            source: owner,
            signature: op2.signature.clone(),
        };
        assert_ne!(forged, op2);

        // A replica holding the owner's real ops is offered the forged op.
        let mut replica = empty.clone();
        replica.add_op(op1.clone())?;
        replica.add_op(op2.clone())?;
        let res = replica.add_op(forged.clone());

        // What an honest reader (same steps as autonomi Client::register_get: verify, then
        // apply ops in set order) would now see, for the failure message.
        let mut with_forged = empty.clone();
        let _ = with_forged.merge(&SignedRegister::new(
            empty.base_register().clone(),
            empty.signature.clone(),
            [op1, op2, forged].into_iter().collect(),
        ));
        let verify_res = with_forged.verify();
        let mut reader = RegisterCrdt::new(address);
        for op in with_forged.ops() {
            reader.apply_op(op.clone())?;
        }
        let seen: Vec<Vec<u8>> = reader.read().into_iter().map(|(_, v)| v).collect();

        assert!(
            res.is_err(),
            "an op the owner never signed (no children, value = hash(v1)++\"v2\") was accepted \
             into an owner-only register: add_op -> {res:?}; verify() of a register carrying it \
             -> {verify_res:?}; current values a reader now sees: {seen:?} (the owner's state is \
             the single value \"v2\")"
        );
        Ok(())
    }
