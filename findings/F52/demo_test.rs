
// ---------------------------------------------------------------------------------------------
// C20 demonstration 1: the environment of a service is not kept across an upgrade.
//
// History (all through the real `add_node`, with the mocked `ServiceControl` the other tests in
// this module use):
//   1. `antctl add --env ANT_LOG=all`            -> antnode1
//   2. `antctl add`                 (no --env)   -> antnode2
//   3. `antctl add --env ANT_LOG=v,RUST_LOG=libp2p=debug` -> antnode3
//   4. `antctl upgrade`             (no --env)
//
// Step 4 is `cmd::node::upgrade`, which cannot be called in a test (it downloads a release and
// uses the real service manager).  The three lines by which it chooses the environment for each
// node are copied verbatim below; the definition itself is then produced by the real
// `NodeService::build_upgrade_install_context`.
// ---------------------------------------------------------------------------------------------
#[tokio::test]
async fn c20_upgrade_should_keep_the_environment_each_service_was_installed_with() -> Result<()> {
    use ant_service_management::{
        rpc::RpcClient, NodeService, ServiceStateActions, UpgradeOptions,
    };
    use std::sync::{Arc, Mutex};

    let tmp_data_dir = assert_fs::TempDir::new()?;
    let node_reg_path = tmp_data_dir.child("node_reg.json");
    let temp_dir = assert_fs::TempDir::new()?;
    let node_data_dir = temp_dir.child("data");
    node_data_dir.create_dir_all()?;
    let node_logs_dir = temp_dir.child("logs");
    node_logs_dir.create_dir_all()?;
    let antnode_download_path = temp_dir.child(ANTNODE_FILE_NAME);
    antnode_download_path.write_binary(b"fake antnode bin")?;

    let mut node_registry = NodeRegistry {
        auditor: None,
        faucet: None,
        save_path: node_reg_path.to_path_buf(),
        nat_status: None,
        nodes: vec![],
        environment_variables: None,
        daemon: None,
    };

    // Every definition handed to the service manager at installation is recorded here.
    let installed: Arc<Mutex<Vec<ServiceInstallCtx>>> = Arc::new(Mutex::new(vec![]));
    let installed_clone = installed.clone();
    let next_port = Arc::new(Mutex::new(12000u16));

    let mut mock_service_control = MockServiceControl::new();
    mock_service_control
        .expect_get_available_port()
        .returning(move || {
            let mut port = next_port.lock().unwrap();
            *port += 1;
            Ok(*port)
        });
    mock_service_control
        .expect_install()
        .returning(move |ctx, _| {
            installed_clone.lock().unwrap().push(ctx);
            Ok(())
        });

    let env_of_add_1 = Some(vec![("ANT_LOG".to_owned(), "all".to_owned())]);
    let env_of_add_2 = None;
    let env_of_add_3 = Some(vec![
        ("ANT_LOG".to_owned(), "v".to_owned()),
        ("RUST_LOG".to_owned(), "libp2p=debug".to_owned()),
    ]);

    for env_variables in [env_of_add_1, env_of_add_2, env_of_add_3] {
        add_node(
            AddNodeServiceOptions {
                auto_restart: false,
                auto_set_nat_flags: false,
                count: None,
                delete_antnode_src: false,
                enable_metrics_server: false,
                env_variables,
                evm_network: EvmNetwork::ArbitrumOne,
                home_network: false,
                log_format: None,
                max_archived_log_files: None,
                max_log_files: None,
                metrics_port: None,
                network_id: None,
                node_ip: None,
                node_port: None,
                owner: None,
                peers_args: PeersArgs::default(),
                rpc_address: None,
                rpc_port: None,
                antnode_dir_path: temp_dir.to_path_buf(),
                antnode_src_path: antnode_download_path.to_path_buf(),
                service_data_dir_path: node_data_dir.to_path_buf(),
                service_log_dir_path: node_logs_dir.to_path_buf(),
                upnp: false,
                user: Some(get_username()),
                user_mode: false,
                version: "0.96.4".to_string(),
                rewards_address: RewardsAddress::from_str(
                    "0x03B770D9cD32077cC0bF330c13C114a87643B124",
                )?,
            },
            &mut node_registry,
            &mock_service_control,
            VerbosityLevel::Minimal,
        )
        .await?;
    }

    let installed = installed.lock().unwrap().clone();
    assert_eq!(installed.len(), 3);
    assert_eq!(node_registry.nodes.len(), 3);

    // `antctl upgrade` without `--env`.
    let provided_env_variables: Option<Vec<(String, String)>> = None;

    let mut differences = vec![];
    for index in 0..node_registry.nodes.len() {
        // --- copied from cmd::node::upgrade -------------------------------------------------
        let env_variables = if provided_env_variables.is_some() {
            &provided_env_variables
        } else {
            &node_registry.environment_variables
        };
        let options = UpgradeOptions {
            auto_restart: false,
            env_variables: env_variables.clone(),
            force: false,
            start_service: true,
            target_bin_path: antnode_download_path.to_path_buf(),
            target_version: semver::Version::parse("0.97.0").unwrap(),
        };
        // -------------------------------------------------------------------------------------
        let node = &mut node_registry.nodes[index];
        let rpc_client = RpcClient::from_socket_addr(node.rpc_socket_addr);
        let service = NodeService::new(node, Box::new(rpc_client));
        let upgrade_ctx = service.build_upgrade_install_context(options)?;

        let install_ctx = &installed[index];
        assert_eq!(upgrade_ctx.label, install_ctx.label);
        assert_eq!(upgrade_ctx.program, install_ctx.program);
        assert_eq!(upgrade_ctx.username, install_ctx.username);
        assert_eq!(upgrade_ctx.autostart, install_ctx.autostart);
        if upgrade_ctx.environment != install_ctx.environment {
            differences.push(format!(
                "{}: installed with environment {:?}, upgraded with environment {:?}",
                install_ctx.label, install_ctx.environment, upgrade_ctx.environment
            ));
        }
    }

    assert!(
        differences.is_empty(),
        "a plain `antctl upgrade` changed the environment of services:\n{}",
        differences.join("\n")
    );

    Ok(())
}
