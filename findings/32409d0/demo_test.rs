
#[cfg(test)]
mod finding_increment_port_overflow {
    use super::*;

    /// 65535 is a valid port (e.g. `--node-port 65535`, or a range ending there). After the last
    /// service there is no "next port": the function must say so instead of overflowing.
    #[test]
    fn increment_port_option_on_last_port() {
        assert_eq!(increment_port_option(None), None);
        assert_eq!(increment_port_option(Some(12000)), Some(12001));
        assert_eq!(increment_port_option(Some(65534)), Some(65535));

        let start = get_start_port_if_applicable(Some(PortRange::Single(65535)));
        assert_eq!(start, Some(65535));
        let res = std::panic::catch_unwind(|| increment_port_option(start));
        match res {
            Err(_) => panic!("increment_port_option(Some(65535)) PANICKED (u16 overflow)"),
            Ok(next) => assert_eq!(
                next, None,
                "there is no port after 65535 (a wrapped Some(0) would be wrong as well)"
            ),
        }
    }
}
