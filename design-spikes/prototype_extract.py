# THROW-AWAY design-phase prototype (not the framework, not used by any check):
# the lexer/locator/drop-rules (R1-R4 only) that produced the bodies pasted into the
# design-spikes/*.rs experiments.  Usage: python3 prototype_extract.py <file.rs> <Type::fn|fn>
#!/usr/bin/env python3
"""Prototype: lex Rust, find fn items (optionally inside impl blocks), extract body, apply drop rules."""
import re, sys, json

class Tok:
    __slots__ = ("kind", "text", "start", "end")
    def __init__(s, kind, text, start, end): s.kind, s.text, s.start, s.end = kind, text, start, end
    def __repr__(s): return f"{s.kind}:{s.text!r}"

IDENT = re.compile(r"[A-Za-z_][A-Za-z0-9_]*")
NUM = re.compile(r"[0-9][0-9A-Za-z_]*(\.[0-9][0-9A-Za-z_]*)?")

def lex(src):
    toks = []; i = 0; n = len(src)
    while i < n:
        c = src[i]
        if c.isspace(): i += 1; continue
        if src.startswith("//", i):
            j = src.find("\n", i); j = n if j < 0 else j
            toks.append(Tok("comment", src[i:j], i, j)); i = j; continue
        if src.startswith("/*", i):
            depth = 1; j = i + 2
            while j < n and depth:
                if src.startswith("/*", j): depth += 1; j += 2
                elif src.startswith("*/", j): depth -= 1; j += 2
                else: j += 1
            toks.append(Tok("comment", src[i:j], i, j)); i = j; continue
        m = re.match(r'(b?r)(#*)"', src[i:])
        if m and (i == 0 or not (src[i-1].isalnum() or src[i-1] == '_')):
            hashes = m.group(2); j = src.find('"' + hashes, i + len(m.group(0)))
            j = j + 1 + len(hashes)
            toks.append(Tok("str", src[i:j], i, j)); i = j; continue
        if c == '"' or (c == 'b' and i + 1 < n and src[i+1] == '"'):
            j = i + (2 if c == 'b' else 1)
            while j < n and src[j] != '"':
                j += 2 if src[j] == '\\' else 1
            j += 1
            toks.append(Tok("str", src[i:j], i, j)); i = j; continue
        if c == "'":
            # char literal or lifetime
            m = re.match(r"'(\\.[^']*|[^'\\])'", src[i:])
            if m:
                j = i + len(m.group(0)); toks.append(Tok("char", src[i:j], i, j)); i = j; continue
            m = re.match(r"'[A-Za-z_][A-Za-z0-9_]*", src[i:])
            j = i + len(m.group(0)); toks.append(Tok("lifetime", src[i:j], i, j)); i = j; continue
        m = IDENT.match(src, i)
        if m:
            toks.append(Tok("ident", m.group(0), i, m.end())); i = m.end(); continue
        m = NUM.match(src, i)
        if m:
            toks.append(Tok("num", m.group(0), i, m.end())); i = m.end(); continue
        toks.append(Tok("punct", c, i, i + 1)); i += 1
    return toks

OPEN = {"(": ")", "[": "]", "{": "}"}
def match_close(toks, i):
    """toks[i] is an opener; return index of the matching closer."""
    depth = 0
    for j in range(i, len(toks)):
        t = toks[j]
        if t.kind == "punct":
            if t.text in OPEN: depth += 1
            elif t.text in OPEN.values():
                depth -= 1
                if depth == 0: return j
    raise ValueError("unbalanced")

def code(toks): return [t for t in toks if t.kind != "comment"]

def find_impls(toks):
    """yield (type_name, trait_name|None, body_open_idx, body_close_idx) for impl blocks (token idx in toks)."""
    out = []
    i = 0
    while i < len(toks):
        t = toks[i]
        if t.kind == "ident" and t.text == "impl":
            # scan to '{' at angle-depth 0
            j = i + 1; names = []; angle = 0
            while not (toks[j].kind == "punct" and toks[j].text == "{" and angle <= 0):
                if toks[j].kind == "punct" and toks[j].text == "<": angle += 1
                if toks[j].kind == "punct" and toks[j].text == ">" and toks[j-1].text != "-": angle -= 1
                if toks[j].kind == "ident" and angle == 0: names.append(toks[j].text)
                j += 1
            k = match_close(toks, j)
            trait = None; ty = None
            if "for" in names:
                p = names.index("for"); trait = names[p-1] if p else None; ty = names[p+1] if p + 1 < len(names) else None
            else:
                ty = names[-1] if names else None
                if "where" in names: ty = names[names.index("where") - 1]
            out.append((ty, trait, j, k)); i = j + 1; continue
        i += 1
    return out

def find_fn(toks, name, lo=0, hi=None):
    hi = len(toks) if hi is None else hi
    depth = 0
    i = lo
    while i < hi:
        t = toks[i]
        if t.kind == "ident" and t.text == "fn" and toks[i+1].kind == "ident" and toks[i+1].text == name:
            # signature until '{' at paren depth 0
            j = i; pd = 0
            while True:
                tj = toks[j]
                if tj.kind == "punct":
                    if tj.text in "([": pd += 1
                    elif tj.text in ")]": pd -= 1
                    elif tj.text == "{" and pd == 0: break
                    elif tj.text == ";" and pd == 0: return None
                j += 1
            k = match_close(toks, j)
            return (i, j, k)
        i += 1
    return None

def extract(src, qual):
    toks = code(lex(src))
    if "::" in qual:
        ty, name = qual.split("::")
        for (t, trait, a, b) in find_impls(toks):
            if t == ty:
                r = find_fn(toks, name, a, b)
                if r: return toks, r
        return toks, None
    return toks, find_fn(toks, qual)

LOG = {"trace", "debug", "info", "warn", "error"}

def stmt_spans(toks, a, b):
    """split tokens in (a,b) (exclusive of braces) into top-level statements: list of (s,e) inclusive idx."""
    out = []; i = a + 1; s = i
    while i < b:
        t = toks[i]
        if t.kind == "punct" and t.text in OPEN:
            j = match_close(toks, i)
            # block-like statement end: '}' followed by something that can't continue an expression
            if t.text == "{":
                nxt = toks[j+1] if j + 1 < b else None
                if nxt is None or not (nxt.kind == "punct" and nxt.text in ".;?,)=") and not (nxt.kind == "ident" and nxt.text in ("else", "as")):
                    # heuristics: a `let ... = match/if {...}` still needs `;` -> check whether stmt started with let
                    if not (toks[s].kind == "ident" and toks[s].text == "let"):
                        out.append((s, j)); i = j + 1; s = i; continue
            i = j + 1; continue
        if t.kind == "punct" and t.text == ";":
            out.append((s, i)); i += 1; s = i; continue
        i += 1
    if s < b: out.append((s, b - 1))
    return out

def apply_rules(src, toks, body_open, body_close, report):
    """return text of the body with rules applied (recursively over nested blocks)."""
    dels = []   # (start_char, end_char, replacement)
    def walk(a, b):
        for (s, e) in stmt_spans(toks, a, b):
            ts = toks[s:e+1]
            # R2: logging macro statement
            if len(ts) >= 3 and ts[0].kind == "ident" and ts[0].text in LOG and ts[1].text == "!":
                dels.append((ts[0].start, ts[-1].end, "")); report.append(("drop-log", src[ts[0].start:ts[-1].end][:80])); continue
            # R1: #[cfg(feature = "open-metrics")] stmt
            if ts[0].text == "#" and ts[1].text == "[":
                k = match_close(toks, s + 1)
                attr = src[toks[s].start:toks[k].end]
                if "open-metrics" in attr or "loud" in attr:
                    dels.append((ts[0].start, ts[-1].end, "")); report.append(("drop-cfg-stmt", src[ts[0].start:ts[-1].end][:80])); continue
            # recurse into nested blocks
            i = s
            while i <= e:
                if toks[i].kind == "punct" and toks[i].text == "{":
                    j = match_close(toks, i); walk(i, j); i = j + 1
                else: i += 1
    walk(body_open, body_close)
    # R3: .await
    for i in range(body_open, body_close):
        if toks[i].text == "." and toks[i+1].kind == "ident" and toks[i+1].text == "await":
            dels.append((toks[i].start, toks[i+1].end, "")); report.append(("drop-await", ""))
    # R4: format!/eyre!
    i = body_open
    while i < body_close:
        if toks[i].kind == "ident" and toks[i].text in ("format", "eyre") and toks[i+1].text == "!":
            j = match_close(toks, i + 2)
            inside = any(d[0] <= toks[i].start and toks[j].end <= d[1] for d in dels)
            if not inside:
                dels.append((toks[i].start, toks[j].end, "__opaque_%s()" % toks[i].text)); report.append(("opaque-" + toks[i].text, src[toks[i].start:toks[j].end][:60]))
            i = j + 1; continue
        i += 1
    # apply (outermost wins)
    dels.sort()
    out = []; pos = toks[body_open].start; last_end = -1
    for (a, b, r) in dels:
        if a < last_end: continue
        out.append(src[pos:a]); out.append(r); pos = b; last_end = b
    out.append(src[pos:toks[body_close].end])
    return "".join(out)

if __name__ == "__main__":
    path, qual = sys.argv[1], sys.argv[2]
    src = open(path).read()
    toks, r = extract(src, qual)
    if not r: print("NOT FOUND"); sys.exit(2)
    i, j, k = r
    rep = []
    print("// SIGNATURE:", " ".join(t.text for t in toks[i:j]))
    print(apply_rules(src, toks, j, k, rep))
    print("// REPORT:", json.dumps(rep, indent=1))
