use vstd::prelude::*;
verus! {

#[verifier::external_body]
#[derive(Clone, Copy, PartialEq, Eq)]
pub struct PeerId { p: [u8; 4] }
#[verifier::external_body]
pub struct Addr { p: [u8; 4] }
#[verifier::external_body]
#[derive(Clone, Copy, PartialEq, Eq)]
pub struct U256 { d: [u64; 4] }
pub uninterp spec fn u256_val(u: U256) -> nat;
pub uninterp spec fn peer_dist(a: Addr, p: PeerId) -> nat;

pub open spec fn nat_cmp(a: nat, b: nat) -> core::cmp::Ordering {
    if a < b { core::cmp::Ordering::Less } else if a == b { core::cmp::Ordering::Equal } else { core::cmp::Ordering::Greater }
}
impl vstd::std_specs::cmp::PartialOrdSpecImpl for U256 {
    open spec fn obeys_partial_cmp_spec() -> bool { true }
    open spec fn partial_cmp_spec(&self, other: &U256) -> Option<core::cmp::Ordering> {
        Some(nat_cmp(u256_val(*self), u256_val(*other)))
    }
}
impl PartialOrd for U256 {
    #[verifier::external_body]
    fn partial_cmp(&self, other: &U256) -> (r: Option<core::cmp::Ordering>) { unimplemented!() }
}

#[verifier::external_body]
pub fn dist_u256(address: &Addr, p: &PeerId) -> (r: U256) ensures u256_val(r) == peer_dist(*address, *p) { unimplemented!() }

fn get_peers_in_range(peers: &[PeerId], address: &Addr, range: U256) -> (out: Vec<PeerId>)
    ensures
        forall|j: int| 0 <= j < out@.len() ==> peer_dist(*address, #[trigger] out@[j]) <= u256_val(range),
        forall|i: int| 0 <= i < peers@.len() && peer_dist(*address, #[trigger] peers@[i]) <= u256_val(range) ==> out@.contains(peers@[i]),
{
    // R8 desugaring of `peers.iter().filter_map(F).collect()`; closure body verbatim, annotated by template (R7)
    let __f = |peer_id: &PeerId| -> (r: Option<PeerId>)
        ensures r == (if peer_dist(*address, *peer_id) <= u256_val(range) { Some(*peer_id) } else { None })
    {
            let distance = dist_u256(address, peer_id);
            if distance <= range {
                Some(*peer_id)
            } else {
                None
            }
        };
    let mut __out: Vec<PeerId> = Vec::new();
    for __x in __it: peers.iter()
        invariant
            forall|j: int| 0 <= j < __out@.len() ==> peer_dist(*address, #[trigger] __out@[j]) <= u256_val(range),
            forall|i: int| 0 <= i < __it.index() && peer_dist(*address, #[trigger] peers@[i]) <= u256_val(range) ==> __out@.contains(peers@[i]),
            forall|x: &PeerId| #[trigger] __f.requires((x,)),
            forall|x: &PeerId, r: Option<PeerId>| #[trigger] __f.ensures((x,), r) ==> r == (if peer_dist(*address, *x) <= u256_val(range) { Some(*x) } else { None::<PeerId> }),
    {
        if let Some(__y) = __f(__x) {
            let ghost old_out = __out@;
            __out.push(__y);
            assert(forall|k: int| 0 <= k < old_out.len() ==> __out@[k] == old_out[k]);
            assert(__out@[old_out.len() as int] == __y);
        }
    }
    __out
}
} // verus!
fn main() {}
