use vstd::prelude::*;
verus! {
// ---------- PRELUDE ----------
#[verifier::external_body] #[derive(Clone, Copy)] pub struct XorName { b: [u8; 32] }
impl vstd::std_specs::cmp::PartialEqSpecImpl for XorName {
    open spec fn obeys_eq_spec() -> bool { true }
    open spec fn eq_spec(&self, other: &XorName) -> bool { *self == *other }
}
impl PartialEq for XorName { #[verifier::external_body] fn eq(&self, o: &XorName) -> (r: bool) { unimplemented!() } }
pub type ChunkAddr = XorName;
pub uninterp spec fn hash_content(b: Seq<u8>) -> XorName;            // XorName::from_content
#[derive(Clone, Copy)] pub struct ChunkAddress(pub XorName);
impl ChunkAddress {
    pub fn new(x: XorName) -> (r: ChunkAddress) ensures r.0 == x { ChunkAddress(x) }
    pub fn xorname(&self) -> (r: &XorName) ensures *r == self.0 { &self.0 }
}
#[verifier::external_body] pub struct RecordKey { p: () }
pub enum NetworkAddress { ChunkAddress(ChunkAddress), Other }
impl NetworkAddress {
    pub fn from_chunk_address(a: ChunkAddress) -> (r: NetworkAddress) ensures r == NetworkAddress::ChunkAddress(a) { NetworkAddress::ChunkAddress(a) }
    #[verifier::external_body] pub fn to_record_key(&self) -> RecordKey { unimplemented!() }
}
pub struct Record { pub key: RecordKey, pub value: Vec<u8> }
#[derive(Clone, Copy, PartialEq, Eq)] pub enum RecordKind { Chunk, Other }
pub struct RecordHeader { pub kind: RecordKind }
pub enum ProtoError { HeaderParse, RecordParse }
pub enum NetworkError { RecordKindMismatch(RecordKind), Other }
pub enum GetError { Network(NetworkError), Protocol(ProtoError) }
impl vstd::std_specs::convert::FromSpecImpl<NetworkError> for GetError {
    open spec fn obeys_from_spec() -> bool { true }
    open spec fn from_spec(e: NetworkError) -> GetError { GetError::Network(e) }
}
impl From<NetworkError> for GetError { fn from(e: NetworkError) -> GetError { GetError::Network(e) } }
impl vstd::std_specs::convert::FromSpecImpl<ProtoError> for GetError {
    open spec fn obeys_from_spec() -> bool { true }
    open spec fn from_spec(e: ProtoError) -> GetError { GetError::Protocol(e) }
}
impl From<ProtoError> for GetError { fn from(e: ProtoError) -> GetError { GetError::Protocol(e) } }

impl RecordHeader {
    #[verifier::external_body]
    pub fn from_record(r: &Record) -> (res: Result<RecordHeader, ProtoError>) { unimplemented!() }
}
pub struct Chunk { pub address: ChunkAddress, pub value: Vec<u8> }
// contract of header unit: a decoded chunk's address is recomputed from its bytes
#[verifier::external_body]
pub fn try_deserialize_record_chunk(r: &Record) -> (res: Result<Chunk, ProtoError>)
    ensures res matches Ok(c) ==> c.address.0 == hash_content(c.value@)
{ unimplemented!() }

pub enum Quorum { One }
pub struct GetRecordCfg { pub get_quorum: Quorum, pub retry_strategy: Option<u8>, pub target_record: Option<u8>, pub expected_holders: u8, pub is_register: bool }
pub struct Network {}
impl Network {
    // ADVERSARY: any record or any error
    #[verifier::external_body]
    pub fn get_record_from_network(&self, key: RecordKey, cfg: &GetRecordCfg) -> (r: Result<Record, NetworkError>) { unimplemented!() }
}
pub struct Client { pub network: Network }

impl Client {
    // pasted body (R1, R1b, R3; HashSet::new() -> 0 by stand-in)
    pub fn chunk_get(&self, addr: ChunkAddr) -> (res: Result<Chunk, GetError>)
        ensures res matches Ok(chunk) ==> chunk.address.0 == addr && hash_content(chunk.value@) == addr,
    {
        let key = NetworkAddress::from_chunk_address(ChunkAddress::new(addr)).to_record_key();
        let get_cfg = GetRecordCfg {
            get_quorum: Quorum::One,
            retry_strategy: None,
            target_record: None,
            expected_holders: 0,
            is_register: false,
        };

        let record = self
            .network
            .get_record_from_network(key, &get_cfg)
            ?;
        let header = RecordHeader::from_record(&record)?;

        if let RecordKind::Chunk = header.kind {
            let chunk: Chunk = try_deserialize_record_chunk(&record)?;
            Ok(chunk)
        } else {
            Err(NetworkError::RecordKindMismatch(RecordKind::Chunk).into())
        }
    }
}
}
fn main() {}
