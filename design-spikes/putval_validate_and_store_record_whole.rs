
use vstd::prelude::*;
verus! {
// ================= PRELUDE (putval) =================
#[verifier::external_body] pub struct RecordKey { p: () }
impl Clone for RecordKey { #[verifier::external_body] fn clone(&self) -> (r: RecordKey) ensures r == *self { unimplemented!() } }
impl vstd::std_specs::cmp::PartialEqSpecImpl for RecordKey {
    open spec fn obeys_eq_spec() -> bool { true }
    open spec fn eq_spec(&self, other: &RecordKey) -> bool { *self == *other }
}
impl PartialEq for RecordKey { #[verifier::external_body] fn eq(&self, o: &RecordKey) -> (r: bool) { unimplemented!() } }
#[verifier::external_body] #[derive(Clone, Copy)] pub struct XorName { b: [u8; 32] }
impl XorName { #[verifier::external_body] pub fn from_content(b: &Vec<u8>) -> XorName { unimplemented!() } }
#[verifier::external_body] pub struct PeerId { p: () }
#[verifier::external_body] pub struct Instant { p: () }
pub struct Record { pub key: RecordKey, pub value: Vec<u8>, pub publisher: Option<PeerId>, pub expires: Option<Instant> }
#[derive(Clone, Copy, PartialEq, Eq)]
pub enum RecordKind { Chunk, ChunkWithPayment, Transaction, TransactionWithPayment, Register, RegisterWithPayment, Scratchpad, ScratchpadWithPayment }
pub struct RecordHeader { pub kind: RecordKind }
pub enum RecordType { Chunk, Scratchpad, NonChunk(XorName) }
#[verifier::external_body] pub struct PrettyKey { p: () }
pub struct PrettyPrintRecordKey {}
impl PrettyPrintRecordKey { #[verifier::external_body] pub fn from(k: &RecordKey) -> PrettyKey { unimplemented!() } }
impl PrettyKey { #[verifier::external_body] pub fn into_owned(self) -> PrettyKey { unimplemented!() } }
pub enum Marker<'a> { ValidPaidChunkPutFromClient(&'a PrettyKey), ValidScratchpadRecordPutFromClient(&'a PrettyKey), ValidTransactionPutFromClient(&'a PrettyKey), ValidPaidRegisterPutFromClient(&'a PrettyKey) }
impl Marker<'_> { #[verifier::external_body] pub fn log(self) { } }

#[verifier::external_body] #[derive(Clone, Copy)] pub struct ChunkAddress { p: () }
#[verifier::external_body] #[derive(Clone, Copy)] pub struct ScratchpadAddress { p: () }
#[verifier::external_body] #[derive(Clone, Copy)] pub struct TransactionAddress { p: () }
#[verifier::external_body] #[derive(Clone, Copy)] pub struct RegisterAddress { p: () }
pub enum NetworkAddress { ChunkAddress(ChunkAddress), ScratchpadAddress(ScratchpadAddress), TransactionAddress(TransactionAddress), RegisterAddress(RegisterAddress) }
pub uninterp spec fn key_of(a: NetworkAddress) -> RecordKey;
impl NetworkAddress {
    #[verifier::external_body] pub fn to_record_key(&self) -> (r: RecordKey) ensures r == key_of(*self) { unimplemented!() }
    pub fn from_transaction_address(a: TransactionAddress) -> (r: NetworkAddress) ensures r == NetworkAddress::TransactionAddress(a) { NetworkAddress::TransactionAddress(a) }
    pub fn from_register_address(a: RegisterAddress) -> (r: NetworkAddress) ensures r == NetworkAddress::RegisterAddress(a) { NetworkAddress::RegisterAddress(a) }
}

#[verifier::external_body] pub struct Chunk { p: () }
#[verifier::external_body] pub struct Scratchpad { p: () }
#[verifier::external_body] pub struct Transaction { p: () }
#[verifier::external_body] pub struct SignedRegister { p: () }
#[verifier::external_body] pub struct ProofOfPayment { p: () }
impl Chunk { pub uninterp spec fn addr(&self) -> ChunkAddress;
    #[verifier::external_body] pub fn network_address(&self) -> (r: NetworkAddress) ensures r == NetworkAddress::ChunkAddress(self.addr()) { unimplemented!() } }
impl Scratchpad { pub uninterp spec fn addr(&self) -> ScratchpadAddress;
    #[verifier::external_body] pub fn network_address(&self) -> (r: NetworkAddress) ensures r == NetworkAddress::ScratchpadAddress(self.addr()) { unimplemented!() }
    #[verifier::external_body] pub fn address(&self) -> (r: &ScratchpadAddress) ensures *r == self.addr() { unimplemented!() } }
impl Transaction { pub uninterp spec fn addr(&self) -> TransactionAddress;
    #[verifier::external_body] pub fn address(&self) -> (r: TransactionAddress) ensures r == self.addr() { unimplemented!() } }
impl SignedRegister { pub uninterp spec fn addr(&self) -> RegisterAddress;
    #[verifier::external_body] pub fn address(&self) -> (r: &RegisterAddress) ensures *r == self.addr() { unimplemented!() } }

pub enum ProtoError { HeaderParse, RecordParse }
pub enum NetError { Chan }
pub enum Error { RecordKeyMismatch, InvalidPutWithoutPayment(PrettyKey), UnexpectedRecordWithPayment(PrettyKey), IgnoringOutdatedScratchpadPut,
    InvalidScratchpadSignature, InvalidRequest, EvmNetwork, Protocol(ProtoError), Network(NetError) }
pub type Result<T> = core::result::Result<T, Error>;
impl vstd::std_specs::convert::FromSpecImpl<ProtoError> for Error { open spec fn obeys_from_spec() -> bool { true } open spec fn from_spec(e: ProtoError) -> Error { Error::Protocol(e) } }
impl From<ProtoError> for Error { fn from(e: ProtoError) -> Error { Error::Protocol(e) } }
impl vstd::std_specs::convert::FromSpecImpl<NetError> for Error { open spec fn obeys_from_spec() -> bool { true } open spec fn from_spec(e: NetError) -> Error { Error::Network(e) } }
impl From<NetError> for Error { fn from(e: NetError) -> Error { Error::Network(e) } }

pub uninterp spec fn header_of(v: Seq<u8>) -> Option<RecordKind>;
impl RecordHeader {
    #[verifier::external_body]
    pub fn from_record(r: &Record) -> (res: core::result::Result<RecordHeader, ProtoError>)
        ensures res matches Ok(h) ==> header_of(r.value@) == Some(h.kind), res is Err ==> header_of(r.value@) is None { unimplemented!() }
}
pub uninterp spec fn de<T>(v: Seq<u8>) -> Option<T>;
#[verifier::external_body]
pub fn try_deserialize_record<T>(r: &Record) -> (res: core::result::Result<T, ProtoError>)
    ensures res matches Ok(t) ==> de::<T>(r.value@) == Some(t), res is Err ==> de::<T>(r.value@) is None { unimplemented!() }

// ---------- ghost network / node ----------
pub struct Net { pub ghost present: Set<RecordKey>, pub ghost puts: Seq<RecordKey> }
impl Net {
    #[verifier::external_body]
    pub fn notify_fetch_completed(&self, k: RecordKey, t: RecordType) { }
}
pub struct Node { pub net: Net }
pub uninterp spec fn payment_ok(n: Node, a: NetworkAddress, p: ProofOfPayment) -> bool;   // C03-T1 conjunction

impl Node {
    // ---- callee contracts (each verified from its own pasted body in the real unit) ----
    #[verifier::external_body]
    fn validate_key_and_existence(&self, address: &NetworkAddress, expected_record_key: &RecordKey) -> (res: Result<bool>)
        ensures res matches Ok(b) ==> *expected_record_key == key_of(*address) && b == self.net.present.contains(key_of(*address)),
                res is Err ==> *expected_record_key != key_of(*address) || true,
    { unimplemented!() }
    #[verifier::external_body]
    fn payment_for_us_exists_and_is_still_valid(&self, address: &NetworkAddress, payment: ProofOfPayment) -> (res: Result<()>)
        ensures res is Ok ==> payment_ok(*self, *address, payment)
    { unimplemented!() }
    #[verifier::external_body]
    fn store_chunk(&mut self, chunk: &Chunk) -> (res: Result<()>)
        ensures final(self).net.present == old(self).net.present,
            res is Ok ==> final(self).net.puts == old(self).net.puts.push(key_of(NetworkAddress::ChunkAddress(chunk.addr()))),
            res is Err ==> final(self).net.puts == old(self).net.puts,
    { unimplemented!() }
    #[verifier::external_body]
    fn validate_and_store_scratchpad_record(&mut self, scratchpad: Scratchpad, record_key: RecordKey, is_client_put: bool) -> (res: Result<()>)
        ensures final(self).net.present == old(self).net.present,
            res is Ok ==> record_key == key_of(NetworkAddress::ScratchpadAddress(scratchpad.addr())) && final(self).net.puts == old(self).net.puts.push(record_key),
            res is Err ==> final(self).net.puts == old(self).net.puts,
    { unimplemented!() }
    #[verifier::external_body]
    fn validate_merge_and_store_transactions(&mut self, transactions: Vec<Transaction>, record_key: &RecordKey) -> (res: Result<()>)
        ensures final(self).net.present == old(self).net.present,
            final(self).net.puts == old(self).net.puts || final(self).net.puts == old(self).net.puts.push(*record_key),
            res is Err ==> final(self).net.puts == old(self).net.puts,
    { unimplemented!() }
    #[verifier::external_body]
    fn validate_and_store_register(&mut self, register: SignedRegister, is_client_put: bool) -> (res: Result<()>)
        ensures final(self).net.present == old(self).net.present,
            final(self).net.puts == old(self).net.puts || final(self).net.puts == old(self).net.puts.push(key_of(NetworkAddress::RegisterAddress(register.addr()))),
            res is Err ==> final(self).net.puts == old(self).net.puts,
    { unimplemented!() }
    #[verifier::external_body]
    fn replicate_valid_fresh_record(&self, paid_key: RecordKey, record_type: RecordType) { }

    // ================= pasted body of validate_and_store_record (R1, R3, R4, R5) =================
    pub(crate) fn validate_and_store_record(&mut self, record: Record) -> (res: Result<()>)
        ensures
            final(self).net.present == old(self).net.present,
            // at most one put, and only under the presented key
            final(self).net.puts == old(self).net.puts || final(self).net.puts == old(self).net.puts.push(record.key),
            res is Err ==> final(self).net.puts == old(self).net.puts,
            // C03-T2, one clause per kind
            (header_of(record.value@) == Some(RecordKind::Chunk) || header_of(record.value@) == Some(RecordKind::Transaction)) ==> final(self).net.puts == old(self).net.puts && res is Err,
            header_of(record.value@) == Some(RecordKind::ChunkWithPayment) && final(self).net.puts != old(self).net.puts ==> !old(self).net.present.contains(record.key)
                        && (de::<(ProofOfPayment, Chunk)>(record.value@) matches Some(pc) && payment_ok(*old(self), NetworkAddress::ChunkAddress(pc.1.addr()), pc.0)),
            header_of(record.value@) == Some(RecordKind::ScratchpadWithPayment) && final(self).net.puts != old(self).net.puts ==>
                        (de::<(ProofOfPayment, Scratchpad)>(record.value@) matches Some(pc) && payment_ok(*old(self), NetworkAddress::ScratchpadAddress(pc.1.addr()), pc.0)),
            header_of(record.value@) == Some(RecordKind::RegisterWithPayment) && final(self).net.puts != old(self).net.puts && !old(self).net.present.contains(record.key) ==>
                        (de::<(ProofOfPayment, SignedRegister)>(record.value@) matches Some(pc) && payment_ok(*old(self), NetworkAddress::RegisterAddress(pc.1.addr()), pc.0)),
            header_of(record.value@) == Some(RecordKind::TransactionWithPayment) && final(self).net.puts != old(self).net.puts && !old(self).net.present.contains(record.key) ==>
                        (de::<(ProofOfPayment, Transaction)>(record.value@) matches Some(pc) && payment_ok(*old(self), NetworkAddress::TransactionAddress(pc.1.addr()), pc.0)),
            header_of(record.value@) == Some(RecordKind::Scratchpad) && final(self).net.puts != old(self).net.puts ==> old(self).net.present.contains(record.key),
            header_of(record.value@) == Some(RecordKind::Register) && final(self).net.puts != old(self).net.puts ==> old(self).net.present.contains(record.key),
{
        let record_header = RecordHeader::from_record(&record)?;

        match record_header.kind {
            RecordKind::ChunkWithPayment => {
                let record_key = record.key.clone();
                let (payment, chunk) = try_deserialize_record::<(ProofOfPayment, Chunk)>(&record)?;
                let already_exists = self
                    .validate_key_and_existence(&chunk.network_address(), &record_key)
                    ?;

                // Validate the payment and that we received what we asked.
                // This stores any payments to disk
                let payment_res = self
                    .payment_for_us_exists_and_is_still_valid(&chunk.network_address(), payment)
                    ;

                // Now that we've taken any money passed to us, regardless of the payment's validity,
                // if we already have the data we can return early
                if already_exists {
                    // if we're receiving this chunk PUT again, and we have been paid,
                    // we eagerly retry replicaiton as it seems like other nodes are having trouble
                    // did not manage to get this chunk as yet
                    self.replicate_valid_fresh_record(record_key, RecordType::Chunk);

                    // Notify replication_fetcher to mark the attempt as completed.
                    // Send the notification earlier to avoid it got skipped due to:
                    // the record becomes stored during the fetch because of other interleaved process.
                    self.net
                        .notify_fetch_completed(record.key.clone(), RecordType::Chunk);

                    
                    return Ok(());
                }

                // Finally before we store, lets bail for any payment issues
                payment_res?;

                // Writing chunk to disk takes time, hence try to execute it first.
                // So that when the replicate target asking for the copy,
                // the node can have a higher chance to respond.
                let store_chunk_result = self.store_chunk(&chunk);

                if store_chunk_result.is_ok() {
                    Marker::ValidPaidChunkPutFromClient(&PrettyPrintRecordKey::from(&record.key))
                        .log();
                    self.replicate_valid_fresh_record(record_key, RecordType::Chunk);

                    // Notify replication_fetcher to mark the attempt as completed.
                    // Send the notification earlier to avoid it got skipped due to:
                    // the record becomes stored during the fetch because of other interleaved process.
                    self.net
                        .notify_fetch_completed(record.key.clone(), RecordType::Chunk);
                }

                store_chunk_result
            }

            RecordKind::Chunk => {
                
                Err(Error::InvalidPutWithoutPayment(
                    PrettyPrintRecordKey::from(&record.key).into_owned(),
                ))
            }
            RecordKind::ScratchpadWithPayment => {
                let record_key = record.key.clone();
                let (payment, scratchpad) =
                    try_deserialize_record::<(ProofOfPayment, Scratchpad)>(&record)?;
                let _already_exists = self
                    .validate_key_and_existence(&scratchpad.network_address(), &record_key)
                    ?;

                // Validate the payment and that we received what we asked.
                // This stores any payments to disk
                let payment_res = self
                    .payment_for_us_exists_and_is_still_valid(
                        &scratchpad.network_address(),
                        payment,
                    )
                    ;

                // Finally before we store, lets bail for any payment issues
                payment_res?;

                // Writing records to disk takes time, hence try to execute it first.
                // So that when the replicate target asking for the copy,
                // the node can have a higher chance to respond.
                let store_scratchpad_result = self
                    .validate_and_store_scratchpad_record(scratchpad, record_key.clone(), true)
                    ;

                match store_scratchpad_result {
                    // if we're receiving this scratchpad PUT again, and we have been paid,
                    // we eagerly retry replicaiton as it seems like other nodes are having trouble
                    // did not manage to get this scratchpad as yet.
                    Ok(_) | Err(Error::IgnoringOutdatedScratchpadPut) => {
                        Marker::ValidScratchpadRecordPutFromClient(&PrettyPrintRecordKey::from(
                            &record_key,
                        ))
                        .log();
                        self.replicate_valid_fresh_record(
                            record_key.clone(),
                            RecordType::Scratchpad,
                        );

                        // Notify replication_fetcher to mark the attempt as completed.
                        // Send the notification earlier to avoid it got skipped due to:
                        // the record becomes stored during the fetch because of other interleaved process.
                        self.net
                            .notify_fetch_completed(record_key, RecordType::Scratchpad);
                    }
                    Err(_) => {}
                }

                store_scratchpad_result
            }
            RecordKind::Scratchpad => {
                // make sure we already have this scratchpad locally, else reject it as first time upload needs payment
                let key = record.key.clone();
                let scratchpad = try_deserialize_record::<Scratchpad>(&record)?;
                let net_addr = NetworkAddress::ScratchpadAddress(*scratchpad.address());
                let pretty_key = PrettyPrintRecordKey::from(&key);
                
                if !self.validate_key_and_existence(&net_addr, &key)? {
                    
                    return Err(Error::InvalidPutWithoutPayment(
                        PrettyPrintRecordKey::from(&record.key).into_owned(),
                    ));
                }

                // store the scratchpad
                self.validate_and_store_scratchpad_record(scratchpad, key, false)
                    
            }
            RecordKind::Transaction => {
                // Transactions should always be paid for
                
                Err(Error::InvalidPutWithoutPayment(
                    PrettyPrintRecordKey::from(&record.key).into_owned(),
                ))
            }
            RecordKind::TransactionWithPayment => {
                let (payment, transaction) =
                    try_deserialize_record::<(ProofOfPayment, Transaction)>(&record)?;

                // check if the deserialized value's TransactionAddress matches the record's key
                let net_addr = NetworkAddress::from_transaction_address(transaction.address());
                let key = net_addr.to_record_key();
                let pretty_key = PrettyPrintRecordKey::from(&key);
                if record.key != key {
                    
                    return Err(Error::RecordKeyMismatch);
                }

                let already_exists = self.validate_key_and_existence(&net_addr, &key)?;

                // The transaction may already exist during the replication.
                // The payment shall get deposit to self even the transaction already presents.
                // However, if the transaction is already present, the incoming one shall be
                // appended with the existing one, if content is different.
                if let Err(err) = self
                    .payment_for_us_exists_and_is_still_valid(&net_addr, payment)
                    
                {
                    if already_exists {
                        
                    } else {
                        
                        return Err(err);
                    }
                }

                let res = self
                    .validate_merge_and_store_transactions(vec![transaction], &key)
                    ;
                if res.is_ok() {
                    let content_hash = XorName::from_content(&record.value);
                    Marker::ValidTransactionPutFromClient(&PrettyPrintRecordKey::from(&record.key))
                        .log();
                    self.replicate_valid_fresh_record(
                        record.key.clone(),
                        RecordType::NonChunk(content_hash),
                    );

                    // Notify replication_fetcher to mark the attempt as completed.
                    // Send the notification earlier to avoid it got skipped due to:
                    // the record becomes stored during the fetch because of other interleaved process.
                    self.net.notify_fetch_completed(
                        record.key.clone(),
                        RecordType::NonChunk(content_hash),
                    );
                }
                res
            }
            RecordKind::Register => {
                let register = try_deserialize_record::<SignedRegister>(&record)?;

                // make sure we already have this register locally
                let net_addr = NetworkAddress::from_register_address(*register.address());
                let key = net_addr.to_record_key();
                let pretty_key = PrettyPrintRecordKey::from(&key);
                
                if !self.validate_key_and_existence(&net_addr, &key)? {
                    
                    return Err(Error::InvalidPutWithoutPayment(
                        PrettyPrintRecordKey::from(&record.key).into_owned(),
                    ));
                }

                // store the update
                
                let result = self.validate_and_store_register(register, true);

                if result.is_ok() {
                    
                    Marker::ValidPaidRegisterPutFromClient(&pretty_key).log();
                    // we dont try and force replicaiton here as there's state to be kept in sync
                    // which we leave up to the client to enforce

                    let content_hash = XorName::from_content(&record.value);

                    // Notify replication_fetcher to mark the attempt as completed.
                    // Send the notification earlier to avoid it got skipped due to:
                    // the record becomes stored during the fetch because of other interleaved process.
                    self.net.notify_fetch_completed(
                        record.key.clone(),
                        RecordType::NonChunk(content_hash),
                    );
                } else {
                    
                }
                result
            }
            RecordKind::RegisterWithPayment => {
                let (payment, register) =
                    try_deserialize_record::<(ProofOfPayment, SignedRegister)>(&record)?;

                // check if the deserialized value's RegisterAddress matches the record's key
                let net_addr = NetworkAddress::from_register_address(*register.address());
                let key = net_addr.to_record_key();
                let pretty_key = PrettyPrintRecordKey::from(&key);
                if record.key != key {
                    
                    return Err(Error::RecordKeyMismatch);
                }

                let already_exists = self.validate_key_and_existence(&net_addr, &key)?;

                // The register may already exist during the replication.
                // The payment shall get deposit to self even the register already presents.
                // However, if the register already presents, the incoming one maybe for edit only.
                // Hence the corresponding payment error shall not be thrown out.
                if let Err(err) = self
                    .payment_for_us_exists_and_is_still_valid(&net_addr, payment)
                    
                {
                    if already_exists {
                        
                    } else {
                        
                        return Err(err);
                    }
                }

                let res = self.validate_and_store_register(register, true);
                if res.is_ok() {
                    let content_hash = XorName::from_content(&record.value);

                    // Notify replication_fetcher to mark the attempt as completed.
                    // Send the notification earlier to avoid it got skipped due to:
                    // the record becomes stored during the fetch because of other interleaved process.
                    self.net.notify_fetch_completed(
                        record.key.clone(),
                        RecordType::NonChunk(content_hash),
                    );
                }
                res
            }
        }
    }
}
} // verus!
fn main() {}
