use vstd::prelude::*;
verus! {
// ---------- PRELUDE ----------
#[verifier::external_body] #[derive(Clone, Copy)] pub struct Distance { d: [u64; 4] }
#[verifier::external_body] #[derive(Clone, Copy)] pub struct U256 { d: [u64; 4] }
pub uninterp spec fn dist_val(d: Distance) -> nat;
pub uninterp spec fn u256_val(u: U256) -> nat;
pub open spec fn pow2_256() -> nat { vstd::arithmetic::power2::pow2(256) }

// decimal rendering: uninterpreted, with the two facts the proof needs
pub uninterp spec fn dec(n: nat) -> Seq<char>;
pub open spec fn is_digit(c: char) -> bool { '0' <= c <= '9' }
pub broadcast proof fn dec_digits(n: nat)
    ensures (#[trigger] dec(n)).len() > 0, forall|i: int| 0 <= i < dec(n).len() ==> is_digit(#[trigger] dec(n)[i]) { admit(); }

// A-KAD: Debug of kad::KBucketDistance
pub open spec fn dbg_distance(d: Distance) -> Seq<char> { "Distance("@ + dec(dist_val(d)) + ")"@ }
#[verifier::external_body]
pub fn __fmt_debug_distance(d: &Distance) -> (r: String) ensures r@ == dbg_distance(*d) { unimplemented!() }
pub broadcast proof fn dist_range(d: Distance) ensures #[trigger] dist_val(d) < pow2_256() { admit(); }

// std::str::trim_start_matches / trim_end_matches with a &str pattern (A-STD)
pub open spec fn starts_with(s: Seq<char>, p: Seq<char>) -> bool { p.len() <= s.len() && s.subrange(0, p.len() as int) == p }
pub open spec fn ends_with(s: Seq<char>, p: Seq<char>) -> bool { p.len() <= s.len() && s.subrange(s.len() - p.len(), s.len() as int) == p }
pub open spec fn trim_start_spec(s: Seq<char>, p: Seq<char>) -> Seq<char>
    decreases s.len()
{
    if p.len() > 0 && starts_with(s, p) { trim_start_spec(s.subrange(p.len() as int, s.len() as int), p) } else { s }
}
pub open spec fn trim_end_spec(s: Seq<char>, p: Seq<char>) -> Seq<char>
    decreases s.len()
{
    if p.len() > 0 && ends_with(s, p) { trim_end_spec(s.subrange(0, s.len() - p.len()), p) } else { s }
}
pub struct StrRef<'a> { pub s: &'a str }   // not used; &str methods below are free stand-ins
#[verifier::external_body]
pub fn str_trim_start_matches<'a>(s: &'a str, p: &str) -> (r: &'a str) ensures r@ == trim_start_spec(s@, p@) { unimplemented!() }
#[verifier::external_body]
pub fn str_trim_end_matches<'a>(s: &'a str, p: &str) -> (r: &'a str) ensures r@ == trim_end_spec(s@, p@) { unimplemented!() }
#[verifier::external_body]
pub fn str_to_string(s: &str) -> (r: String) ensures r@ == s@ { unimplemented!() }

#[verifier::external_body] pub struct ParseError { p: () }
impl U256 {
    // A-KAD/ruint: a decimal numeral of a value < 2^256 parses to that value
    #[verifier::external_body]
    pub fn from_str(s: &String) -> (r: Result<U256, ParseError>)
        ensures forall|n: nat| n < pow2_256() && s@ == dec(n) ==> (r matches Ok(u) && u256_val(u) == n)
    { unimplemented!() }
    #[verifier::external_body]
    pub fn zero() -> (r: U256) ensures u256_val(r) == 0 { unimplemented!() }
}
#[verifier::external_body]
pub fn result_unwrap_or(r: Result<U256, ParseError>, d: U256) -> (o: U256) ensures r matches Ok(u) ==> o == u, r is Err ==> o == d { unimplemented!() }

// ---------- lemmas ----------
proof fn lemma_trim(n: nat)
    ensures trim_end_spec(trim_start_spec("Distance("@ + dec(n) + ")"@, "Distance("@), ")"@) == dec(n)
{
    broadcast use dec_digits;
    let p = "Distance("@; let q = ")"@; let d = dec(n);
    reveal_strlit("Distance("); reveal_strlit(")");
    let s = p + d + q;
    assert(p.len() == 9 && q.len() == 1);
    assert(s.subrange(0, 9) == p);
    let s1 = s.subrange(9, s.len() as int);
    assert(s1 == d + q);
    assert(is_digit(d[0]));
    assert(s1[0] == d[0]);
    // s1 does not start with "Distance(" because its first char is a digit
    assert(!starts_with(s1, p)) by { if starts_with(s1, p) { assert(s1.subrange(0, 9)[0] == p[0]); assert(p[0] == 'D'); } }
    reveal_with_fuel(trim_start_spec, 3);
    assert(trim_start_spec(s, p) == s1);
    // trailing ")" removed once; then the last char is a digit
    assert(s1.subrange(s1.len() - 1, s1.len() as int) == q);
    let s2 = s1.subrange(0, s1.len() - 1);
    assert(s2 == d);
    assert(!ends_with(d, q)) by { if ends_with(d, q) { assert(d.subrange(d.len() - 1, d.len() as int)[0] == q[0]); assert(q[0] == ')'); assert(is_digit(d[d.len() - 1])); } }
    reveal_with_fuel(trim_end_spec, 3);
    assert(trim_end_spec(s1, q) == d);
}

// ---------- pasted body (R4b: format! translated piecewise; &str methods mapped to stand-ins by R5) ----------
pub fn convert_distance_to_u256(distance: &Distance) -> (res: U256)
    ensures u256_val(res) == dist_val(*distance),
{
    broadcast use dist_range;
    let addr_str = __fmt_debug_distance(distance);
    let numeric_part = str_to_string(str_trim_end_matches(str_trim_start_matches(addr_str.as_str(), "Distance("), ")"));
    proof { lemma_trim(dist_val(*distance)); }
    let distance_value = U256::from_str(&numeric_part);
    result_unwrap_or(distance_value, U256::zero())
}
}
fn main() {}
