use vstd::prelude::*;
verus! {

pub enum PortRange {
    Single(u16),
    Range(u16, u16),
}

// stand-in for eyre::Report
#[verifier::external_body]
pub struct Report { _p: () }
#[verifier::external_body]
pub fn eyre_msg() -> Report { unimplemented!() }

pub fn increment_port_option(port: Option<u16>) -> Option<u16> {
    if let Some(port) = port {
        let incremented_port = port + 1;
        return Some(incremented_port);
    }
    None
}

impl PortRange {
    pub fn validate(&self, count: u16) -> Result<(), Report> {
        match self {
            Self::Single(_) => {
                if count != 1 {
                    return Err(eyre_msg());
                }
            }
            Self::Range(start, end) => {
                let port_count = end - start + 1;
                if count != port_count {
                    return Err(eyre_msg());
                }
            }
        }
        Ok(())
    }
}
} // verus!
fn main() {}
