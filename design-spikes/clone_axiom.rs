use vstd::prelude::*;
verus! {
#[verifier::external_body]
pub struct Key { inner: Vec<u8> }
impl Clone for Key {
    #[verifier::external_body]
    fn clone(&self) -> (r: Key) ensures r == *self { unimplemented!() }
}
#[verifier::external_body]
#[derive(Clone, Copy)]
pub struct Distance { d: [u64; 4] }

pub broadcast proof fn pair_clone(a: (Key, Distance), b: (Key, Distance))
    ensures #[trigger] vstd::pervasive::cloned::<(Key, Distance)>(a, b) ==> a == b { admit(); }
fn t(o: &Option<(Key, Distance)>) {
    broadcast use pair_clone;
    let c = o.clone();
    assert(c == *o);
}
fn t2(o: &Option<Key>) {
    let c = o.clone();
    assert(c == *o);
}
fn t4(o: &Distance) {
    let c = o.clone();
    assert(c == *o);
}
}
fn main() {}
