use vstd::prelude::*;
use std::collections::HashMap;
verus! {
// ================= PRELUDE =================
#[verifier::external_body]
#[derive(PartialEq, Eq, Hash)]
pub struct Key { inner: Vec<u8> }
impl Clone for Key { #[verifier::external_body] fn clone(&self) -> (r: Key) ensures r == *self { unimplemented!() } }
impl vstd::std_specs::cmp::PartialEqSpecImpl for Key {
    open spec fn obeys_eq_spec() -> bool { true }
    open spec fn eq_spec(&self, other: &Key) -> bool { *self == *other }
}
pub broadcast proof fn key_obeys() ensures #[trigger] vstd::std_specs::hash::obeys_key_model::<Key>() { admit(); }
pub uninterp spec fn key_bytes(k: Key) -> Seq<u8>;
impl Key {
    #[verifier::external_body]
    pub fn as_ref(&self) -> (r: &[u8]) ensures r@ == key_bytes(*self) { unimplemented!() }
}

#[verifier::external_body] pub struct PeerId { p: () }
#[verifier::external_body] pub struct Instant { p: () }
impl Instant { #[verifier::external_body] pub fn now() -> Instant { unimplemented!() } }
#[verifier::external_body] pub struct PrettyKey { p: () }
impl Clone for PrettyKey { #[verifier::external_body] fn clone(&self) -> (r: PrettyKey) { unimplemented!() } }
pub struct PrettyPrintRecordKey {}
impl PrettyPrintRecordKey { #[verifier::external_body] pub fn from(k: &Key) -> PrettyKey { unimplemented!() } }
impl PrettyKey { #[verifier::external_body] pub fn into_owned(self) -> PrettyKey { unimplemented!() } }

pub struct Record { pub key: Key, pub value: Vec<u8>, pub publisher: Option<PeerId>, pub expires: Option<Instant> }
impl Clone for Record { #[verifier::external_body] fn clone(&self) -> (r: Record) ensures r == *self { unimplemented!() } }
pub enum Cow<'a, T> { Borrowed(&'a T), Owned(T) }
pub open spec fn cow_val(c: Cow<'_, Record>) -> Record { match c { Cow::Borrowed(r) => *r, Cow::Owned(r) => r } }

#[derive(Clone, Copy, PartialEq, Eq)]
pub enum RecordType { Chunk, Scratchpad, NonChunk(u64) }
pub enum Error { MaxRecords, ValueTooLarge }
pub type Result<T> = core::result::Result<T, Error>;

// ---- strings / paths / hex ----
#[verifier::external_body] pub struct PathBuf { p: () }
pub uninterp spec fn path_join(dir: PathBuf, name: Seq<char>) -> PathBuf;
pub uninterp spec fn hexs(b: Seq<u8>) -> Seq<char>;
impl PathBuf {
    #[verifier::external_body]
    pub fn join(&self, name: &String) -> (r: PathBuf) ensures r == path_join(*self, name@) { unimplemented!() }
}
pub struct hex {}
impl hex { #[verifier::external_body] pub fn encode(b: &[u8]) -> (r: String) ensures r@ == hexs(b@) { unimplemented!() } }

// ---- AEAD (A-AEAD) ----
#[verifier::external_body] pub struct Aes256GcmSiv { p: () }
impl Clone for Aes256GcmSiv { #[verifier::external_body] fn clone(&self) -> (r: Aes256GcmSiv) ensures r == *self { unimplemented!() } }
#[verifier::external_body] pub struct Nonce { p: () }
#[verifier::external_body] pub struct AeadError { p: () }
pub uninterp spec fn enc(c: Aes256GcmSiv, n: Nonce, pt: Seq<u8>) -> Option<Seq<u8>>;
pub uninterp spec fn dec(c: Aes256GcmSiv, n: Nonce, ct: Seq<u8>) -> Option<Seq<u8>>;
pub broadcast proof fn aead_correct(c: Aes256GcmSiv, n: Nonce, pt: Seq<u8>)
    ensures (#[trigger] enc(c, n, pt)) matches Some(ct) ==> dec(c, n, ct) == Some(pt) { admit(); }
impl Aes256GcmSiv {
    #[verifier::external_body]
    pub fn encrypt(&self, n: &Nonce, pt: &[u8]) -> (r: core::result::Result<Vec<u8>, AeadError>)
        ensures r matches Ok(v) ==> enc(*self, *n, pt@) == Some(v@), r is Err ==> enc(*self, *n, pt@) is None { unimplemented!() }
    #[verifier::external_body]
    pub fn decrypt(&self, n: &Nonce, ct: &[u8]) -> (r: core::result::Result<Vec<u8>, AeadError>)
        ensures r matches Ok(v) ==> dec(*self, *n, ct@) == Some(v@), r is Err ==> dec(*self, *n, ct@) is None { unimplemented!() }
}
pub uninterp spec fn nonce_of(starter: [u8; 4], k: Key) -> Nonce;
// contract of generate_nonce_for_record (body verified separately)
#[verifier::external_body]
pub fn generate_nonce_for_record(nonce_starter: &[u8; 4], key: &Key) -> (r: Nonce) ensures r == nonce_of(*nonce_starter, *key) { unimplemented!() }

pub type EncDetails = (Aes256GcmSiv, [u8; 4]);
#[verifier::external_body]
pub fn __clone<T>(x: &T) -> (r: T) ensures r == *x { unimplemented!() }
pub broadcast proof fn encdetails_clone(a: EncDetails, b: EncDetails)
    ensures #[trigger] vstd::pervasive::cloned::<EncDetails>(a, b) ==> a == b { admit(); }

// ---- world ----
pub enum LocalSwarmCmd { AddLocalRecordAsStored { key: Key, record_type: RecordType }, RemoveFailedLocalRecord { key: Key } }
#[verifier::external_body] pub struct CmdSender { p: () }
impl Clone for CmdSender { #[verifier::external_body] fn clone(&self) -> (r: CmdSender) { unimplemented!() } }
#[verifier::external_body] pub struct IoError { p: () }
pub struct World { pub ghost files: Map<PathBuf, Seq<u8>>, pub ghost sent: Seq<LocalSwarmCmd> }
impl World {
    #[verifier::external_body]
    pub fn fs_write(&mut self, path: &PathBuf, bytes: Vec<u8>) -> (r: core::result::Result<(), IoError>)
        ensures r is Ok ==> final(self).files == old(self).files.insert(*path, bytes@), r is Err ==> final(self).files == old(self).files,
                final(self).sent == old(self).sent
    { unimplemented!() }
    #[verifier::external_body]
    pub fn fs_read(&self, path: PathBuf) -> (r: core::result::Result<Vec<u8>, IoError>)
        ensures r matches Ok(v) ==> self.files.contains_key(path) && self.files[path] == v@, r is Err ==> !self.files.contains_key(path)
    { unimplemented!() }
    #[verifier::external_body]
    pub fn send_local_swarm_cmd(&mut self, s: CmdSender, cmd: LocalSwarmCmd)
        ensures final(self).sent == old(self).sent.push(cmd), final(self).files == old(self).files
    { unimplemented!() }
}

// ---- cache (assumed contracts; get/remove/new verified from bodies elsewhere) ----
pub struct RecordCache { pub m: HashMap<Key, (Record, u64)> }
impl RecordCache {
    pub open spec fn view(&self) -> Map<Key, Record> { Map::new(self.m@.dom(), |k: Key| self.m@[k].0) }
    #[verifier::external_body]
    pub fn remove(&mut self, key: &Key) -> (r: Option<(Record, u64)>)
        ensures final(self)@ == old(self)@.remove(*key), (r matches Some(p) ==> old(self)@.contains_key(*key) && old(self)@[*key] == p.0), (r is None ==> !old(self)@.contains_key(*key))
    { unimplemented!() }
    #[verifier::external_body]
    pub fn get(&self, key: &Key) -> (r: Option<&(Record, u64)>)
        ensures (r matches Some(p) ==> self@.contains_key(*key) && self@[*key] == p.0), (r is None ==> !self@.contains_key(*key))
    { unimplemented!() }
    #[verifier::external_body]
    pub fn push_back(&mut self, key: Key, record: Record)
        ensures final(self)@.contains_key(key) && final(self)@[key] == record,
            forall|k: Key| k != key && #[trigger] final(self)@.contains_key(k) ==> old(self)@.contains_key(k) && final(self)@[k] == old(self)@[k],
    { unimplemented!() }
}

pub struct Config { pub storage_dir: PathBuf, pub max_records: usize, pub max_value_bytes: usize }

pub struct NodeRecordStore {
    pub config: Config,
    pub records: HashMap<Key, (u64, RecordType)>,
    pub records_cache: RecordCache,
    pub encryption_details: EncDetails,
    pub local_swarm_cmd_sender: CmdSender,
    pub world: World,
}

pub open spec fn fpath(dir: PathBuf, k: Key) -> PathBuf { path_join(dir, hexs(key_bytes(k))) }
pub open spec fn enc_of(e: EncDetails, k: Key, v: Seq<u8>) -> Option<Seq<u8>> { enc(e.0, nonce_of(e.1, k), v) }
pub open spec fn dec_of(e: EncDetails, k: Key, ct: Seq<u8>) -> Option<Seq<u8>> { dec(e.0, nonce_of(e.1, k), ct) }

impl NodeRecordStore {
    // assumed here (verified in store_index_invariant spike): contract of prune
    #[verifier::external_body]
    fn prune_records_if_needed(&mut self, incoming_record_key: &Key) -> (res: Result<()>)
        ensures final(self).records_cache == old(self).records_cache, final(self).config == old(self).config,
            final(self).encryption_details == old(self).encryption_details, final(self).world.sent == old(self).world.sent, final(self).world.files == old(self).world.files /* spike simplification: eviction's delete not modelled here */, final(self).local_swarm_cmd_sender == old(self).local_swarm_cmd_sender,
            res is Err ==> final(self).records == old(self).records && final(self).world == old(self).world,
    { unimplemented!() }

    // ----------- pasted bodies -----------
    fn generate_filename(key: &Key) -> (r: String) ensures r@ == hexs(key_bytes(*key)) {
        hex::encode(key.as_ref())
    }

    fn prepare_record_bytes(record: Record, encryption_details: EncDetails) -> (r: Option<Vec<u8>>)
        ensures r matches Some(b) ==> enc_of(encryption_details, record.key, record.value@) == Some(b@),
                r is None ==> enc_of(encryption_details, record.key, record.value@) is None,
    {
        if !true {
            return Some(record.value);
        }

        let (cipher, nonce_starter) = encryption_details;
        let nonce = generate_nonce_for_record(&nonce_starter, &record.key);

        match cipher.encrypt(&nonce, record.value.as_slice()) {
            Ok(value) => Some(value),
            Err(error) => {
                None
            }
        }
    }

    fn get_record_from_bytes<'a>(bytes: Vec<u8>, key: &Key, encryption_details: &EncDetails) -> (r: Option<Cow<'a, Record>>)
        ensures
            r matches Some(c) ==> cow_val(c).key == *key && dec_of(*encryption_details, *key, bytes@) == Some(cow_val(c).value@),
            r is None ==> dec_of(*encryption_details, *key, bytes@) is None,
    {
        let mut record = Record {
            key: key.clone(),
            value: bytes,
            publisher: None,
            expires: None,
        };

        // if we're not encrypting, lets just return the record
        if !true {
            return Some(Cow::Owned(record));
        }

        let (cipher, nonce_starter) = encryption_details;
        let nonce = generate_nonce_for_record(nonce_starter, key);

        match cipher.decrypt(&nonce, record.value.as_slice()) {
            Ok(value) => {
                record.value = value;
                Some(Cow::Owned(record))
            }
            Err(error) => {
                None
            }
        }
    }

    fn read_from_disk<'a>(world: &World, encryption_details: &EncDetails, key: &Key, storage_dir: &PathBuf) -> (r: Option<Cow<'a, Record>>)
        ensures
            r matches Some(c) ==> cow_val(c).key == *key && world.files.contains_key(fpath(*storage_dir, *key))
                && dec_of(*encryption_details, *key, world.files[fpath(*storage_dir, *key)]) == Some(cow_val(c).value@),
            r is None ==> !world.files.contains_key(fpath(*storage_dir, *key)) || dec_of(*encryption_details, *key, world.files[fpath(*storage_dir, *key)]) is None,
    {
        let start = Instant::now();
        let filename = Self::generate_filename(key);

        let file_path = storage_dir.join(&filename);

        // we should only be reading if we know the record is written to disk properly
        match world.fs_read(file_path) {
            Ok(bytes) => {
                Self::get_record_from_bytes(bytes, key, encryption_details)
            }
            Err(err) => {
                None
            }
        }
    }

    // C01-T1
    fn get(&self, k: &Key) -> (r: Option<Cow<'_, Record>>)
        ensures
            self.records_cache@.contains_key(*k) ==> (r matches Some(c) && cow_val(c) == self.records_cache@[*k]),
            !self.records_cache@.contains_key(*k) && !self.records@.contains_key(*k) ==> r is None,
            !self.records_cache@.contains_key(*k) && self.records@.contains_key(*k) ==> (
                (r matches Some(c) ==> cow_val(c).key == *k && self.world.files.contains_key(fpath(self.config.storage_dir, *k))
                    && dec_of(self.encryption_details, *k, self.world.files[fpath(self.config.storage_dir, *k)]) == Some(cow_val(c).value@))
                && (r is None ==> !self.world.files.contains_key(fpath(self.config.storage_dir, *k)) || dec_of(self.encryption_details, *k, self.world.files[fpath(self.config.storage_dir, *k)]) is None)),
    {
        broadcast use key_obeys;
        let key = PrettyPrintRecordKey::from(k);

        let cached_record = self.records_cache.get(k);
        // first return from FIFO cache if existing there
        if let Some((record, _timestamp)) = cached_record {
            return Some(Cow::Borrowed(record));
        }

        if !self.records.contains_key(k) {
            return None;
        }

        Self::read_from_disk(&self.world, &self.encryption_details, k, &self.config.storage_dir)
    }

    // C01-T2 (with R6: task body inlined at the spawn point)
    pub(crate) fn put_verified(&mut self, r: Record, record_type: RecordType) -> (res: Result<()>)
        ensures
            res is Err ==> final(self).records == old(self).records && final(self).world == old(self).world,
            res is Ok ==> (
                // early return: cache already had the same bytes
                (old(self).records_cache@.contains_key(r.key) && old(self).records_cache@[r.key].value@ == r.value@
                    && final(self).world == old(self).world && final(self).records == old(self).records)
                ||
                // written and acknowledged under the same key
                (enc_of(old(self).encryption_details, r.key, r.value@) matches Some(ct)
                    && (   (final(self).world.files == old(self).world.files.insert(fpath(old(self).config.storage_dir, r.key), ct)
                            && final(self).world.sent == old(self).world.sent.push(LocalSwarmCmd::AddLocalRecordAsStored { key: r.key, record_type }))
                        || (final(self).world.files == old(self).world.files
                            && final(self).world.sent == old(self).world.sent.push(LocalSwarmCmd::RemoveFailedLocalRecord { key: r.key }))))
                ||
                // encryption failed: nothing written, nothing sent
                (enc_of(old(self).encryption_details, r.key, r.value@) is None && final(self).world.files == old(self).world.files && final(self).world.sent == old(self).world.sent)
            ),
            res is Ok ==> final(self).records_cache@.contains_key(r.key) && final(self).records_cache@[r.key].value@ == r.value@,
    {
        broadcast use key_obeys, encdetails_clone;
        let key = &r.key;
        let record_key = PrettyPrintRecordKey::from(&r.key).into_owned();

        if let Some((existing_record, _timestamp)) = self.records_cache.remove(key) {
            if existing_record.value == r.value {
                // so we put it back in the cache
                self.records_cache.push_back(key.clone(), existing_record);
                // and exit early.
                return Ok(());
            }
        }

        // Store the new record to the cache
        self.records_cache.push_back(key.clone(), r.clone());

        self.prune_records_if_needed(key)?;

        let filename = Self::generate_filename(key);
        let file_path = self.config.storage_dir.join(&filename);

        let encryption_details = __clone(&self.encryption_details);
        let cloned_cmd_sender = self.local_swarm_cmd_sender.clone();

        let record_key2 = record_key.clone();
        {
            let key = r.key.clone();
            if let Some(bytes) = Self::prepare_record_bytes(r, encryption_details) {
                let cmd = match self.world.fs_write(&file_path, bytes) {
                    Ok(_) => {
                        LocalSwarmCmd::AddLocalRecordAsStored { key, record_type }
                    }
                    Err(err) => {
                        LocalSwarmCmd::RemoveFailedLocalRecord { key }
                    }
                };

                self.world.send_local_swarm_cmd(cloned_cmd_sender, cmd);
            }
        };

        Ok(())
    }
}
} // verus!
fn main() {}
