use vstd::prelude::*;
use std::collections::{HashMap, BTreeMap};
verus! {

// ================= PRELUDE: opaque stand-ins + assumed dependency contracts =================
#[verifier::external_body]
#[derive(PartialEq, Eq, Hash)]
pub struct Key { inner: Vec<u8> }
impl Clone for Key {
    #[verifier::external_body]
    fn clone(&self) -> (r: Key) ensures r == *self { unimplemented!() }
}
pub assume_specification[ <Key as PartialEq>::eq ](a: &Key, b: &Key) -> (r: bool)
    ensures r == (*a == *b);
pub broadcast proof fn key_obeys()
  ensures #[trigger] vstd::std_specs::hash::obeys_key_model::<Key>()
{ admit(); }

#[verifier::external_body]
pub struct NetworkAddress { b: Vec<u8> }
impl Clone for NetworkAddress {
    #[verifier::external_body]
    fn clone(&self) -> (r: NetworkAddress) ensures r == *self { unimplemented!() }
}

pub open spec fn nat_cmp(a: nat, b: nat) -> core::cmp::Ordering {
    if a < b { core::cmp::Ordering::Less } else if a == b { core::cmp::Ordering::Equal } else { core::cmp::Ordering::Greater }
}

#[verifier::external_body]
#[derive(Clone, Copy, PartialEq, Eq)]
pub struct Distance { d: [u64; 4] }
#[verifier::external_body]
#[derive(Clone, Copy, PartialEq, Eq)]
pub struct U256 { d: [u64; 4] }
pub uninterp spec fn dist_val(d: Distance) -> nat;
pub uninterp spec fn u256_val(u: U256) -> nat;
// both are 256-bit integers: equal value <=> equal object (extensionality of the opaque types)
pub broadcast proof fn u256_ext(a: U256, b: U256)
    ensures #[trigger] u256_val(a) == #[trigger] u256_val(b) ==> a == b { admit(); }
pub broadcast proof fn dist_ext(a: Distance, b: Distance)
    ensures #[trigger] dist_val(a) == #[trigger] dist_val(b) ==> a == b { admit(); }

impl vstd::std_specs::cmp::PartialOrdSpecImpl for Distance {
    open spec fn obeys_partial_cmp_spec() -> bool { true }
    open spec fn partial_cmp_spec(&self, other: &Distance) -> Option<core::cmp::Ordering> {
        Some(nat_cmp(dist_val(*self), dist_val(*other)))
    }
}
impl PartialOrd for Distance {
    #[verifier::external_body]
    fn partial_cmp(&self, other: &Distance) -> (r: Option<core::cmp::Ordering>) { unimplemented!() }
}
impl vstd::std_specs::cmp::PartialOrdSpecImpl for U256 {
    open spec fn obeys_partial_cmp_spec() -> bool { true }
    open spec fn partial_cmp_spec(&self, other: &U256) -> Option<core::cmp::Ordering> {
        Some(nat_cmp(u256_val(*self), u256_val(*other)))
    }
}
impl vstd::std_specs::cmp::OrdSpecImpl for U256 {
    open spec fn obeys_cmp_spec() -> bool { true }
    open spec fn cmp_spec(&self, other: &U256) -> core::cmp::Ordering {
        nat_cmp(u256_val(*self), u256_val(*other))
    }
}
impl PartialOrd for U256 {
    #[verifier::external_body]
    fn partial_cmp(&self, other: &U256) -> (r: Option<core::cmp::Ordering>) { unimplemented!() }
}
impl Ord for U256 {
    #[verifier::external_body]
    fn cmp(&self, other: &U256) -> (r: core::cmp::Ordering) { unimplemented!() }
}
pub broadcast proof fn u256_obeys()
  ensures #[trigger] vstd::laws_cmp::obeys_cmp::<U256>()
{ admit(); }

pub uninterp spec fn addr_of_key(k: Key) -> NetworkAddress;
pub uninterp spec fn dist(a: NetworkAddress, b: NetworkAddress) -> Distance;
// ASSUMPTION (SHA-256 collision freedom on record keys): distinct keys have distinct distances to a fixed address
pub broadcast proof fn dist_inj(l: NetworkAddress, a: Key, b: Key)
    ensures #[trigger] dist(l, addr_of_key(a)) == #[trigger] dist(l, addr_of_key(b)) ==> a == b { admit(); }

impl NetworkAddress {
    #[verifier::external_body]
    pub fn from_record_key(k: &Key) -> (r: NetworkAddress) ensures r == addr_of_key(*k) { unimplemented!() }
    #[verifier::external_body]
    pub fn distance(&self, other: &NetworkAddress) -> (r: Distance) ensures r == dist(*self, *other) { unimplemented!() }
}
// contract of ant_protocol::convert_distance_to_u256 (proved in unit `distance`)
pub uninterp spec fn to_u256(d: Distance) -> U256;
pub broadcast proof fn to_u256_val(d: Distance)
    ensures u256_val(#[trigger] to_u256(d)) == dist_val(d) { admit(); }
#[verifier::external_body]
pub fn convert_distance_to_u256(d: &Distance) -> (r: U256) ensures r == to_u256(*d) { unimplemented!() }

pub broadcast proof fn pair_clone(a: (Key, Distance), b: (Key, Distance))
    ensures #[trigger] vstd::pervasive::cloned::<(Key, Distance)>(a, b) ==> a == b { admit(); }
pub enum RecordType { Chunk, Scratchpad, NonChunk(u64) }
pub enum Error { MaxRecords, ValueTooLarge }

#[verifier::external_body]
pub struct PathBuf { p: Vec<u8> }
pub struct Config { pub storage_dir: PathBuf, pub max_records: usize, pub max_value_bytes: usize }

// ghost world of effects
pub struct World { pub ghost deleted: Seq<Key> }

pub struct NodeRecordStore {
    pub local_address: NetworkAddress,
    pub config: Config,
    pub records: HashMap<Key, (NetworkAddress, RecordType)>,
    pub records_by_distance: BTreeMap<U256, Key>,
    pub farthest_record: Option<(Key, Distance)>,
    pub world: World,
}

pub open spec fn kd(l: NetworkAddress, k: Key) -> nat { dist_val(dist(l, addr_of_key(k))) }
pub open spec fn ukey(l: NetworkAddress, k: Key) -> U256 { to_u256(dist(l, addr_of_key(k))) }

impl NodeRecordStore {
    pub open spec fn wf_addr(&self) -> bool {
        forall|k: Key| #[trigger] self.records@.contains_key(k) ==> self.records@[k].0 == addr_of_key(k)
    }
    pub open spec fn wf_idx1(&self) -> bool {
        forall|k: Key| #[trigger] self.records@.contains_key(k) ==>
                self.records_by_distance@.contains_key(ukey(self.local_address, k)) && self.records_by_distance@[ukey(self.local_address, k)] == k
    }
    pub open spec fn wf_idx2(&self) -> bool {
        forall|u: U256| #[trigger] self.records_by_distance@.contains_key(u) ==>
                self.records@.contains_key(self.records_by_distance@[u]) && u == ukey(self.local_address, self.records_by_distance@[u])
    }
    pub open spec fn wf_far(&self) -> bool {
        &&& (self.farthest_record is None ==> self.records@.dom() =~= Set::<Key>::empty())
        &&& (self.farthest_record matches Some((fk, fd)) ==> self.records@.contains_key(fk) && fd == dist(self.local_address, addr_of_key(fk))
                && forall|k: Key| #[trigger] self.records@.contains_key(k) ==> kd(self.local_address, k) <= dist_val(fd))
    }
    pub open spec fn wf(&self) -> bool {
        self.wf_addr() && self.wf_idx1() && self.wf_idx2() && self.wf_far()
    }

    // ASSUMED contract (sort_by_key closure; to be verified through the sort stand-in in the real framework)
    #[verifier::external_body]
    fn calculate_farthest(&self) -> (r: Option<(Key, Distance)>)
        ensures
            r is None ==> self.records@.dom() =~= Set::<Key>::empty(),
            r matches Some((fk, fd)) ==> self.records@.contains_key(fk) && fd == dist(self.local_address, addr_of_key(fk))
                && forall|k: Key| #[trigger] self.records@.contains_key(k) ==> kd(self.local_address, k) <= dist_val(fd),
    { unimplemented!() }

    pub(crate) fn mark_as_stored(&mut self, key: Key, record_type: RecordType)
        requires old(self).wf(),
        ensures final(self).wf(),
            final(self).records@ == old(self).records@.insert(key, (addr_of_key(key), record_type)),
            final(self).world == old(self).world,
    {
        broadcast use key_obeys, u256_obeys, u256_ext, dist_ext, dist_inj, to_u256_val, pair_clone;
        let addr = NetworkAddress::from_record_key(&key);
        let distance = self.local_address.distance(&addr);
        let distance_u256 = convert_distance_to_u256(&distance);

        // Update main records store
        self.records
            .insert(key.clone(), (addr.clone(), record_type));

        // Update bucket index
        let _ = self.records_by_distance.insert(distance_u256, key.clone());

        // Update farthest record if needed (unchanged)
        if let Some((_farthest_record, farthest_record_distance)) = self.farthest_record.clone() {
            if distance > farthest_record_distance {
                self.farthest_record = Some((key, distance));
            }
        } else {
            self.farthest_record = Some((key, distance));
        }
        assert(self.wf_addr());
        assert(self.wf_idx1());
        assert(self.wf_idx2());
        assert(self.wf_far());
    }

    fn remove(&mut self, k: &Key)
        requires old(self).wf(),
        ensures final(self).wf(),
            final(self).records@ == old(self).records@.remove(*k),
            final(self).world.deleted == old(self).world.deleted.push(*k),
    {
        broadcast use key_obeys, u256_obeys, u256_ext, dist_ext, dist_inj, to_u256_val, pair_clone;
        // Remove from main store
        if let Some((addr, _)) = self.records.remove(k) {
            let distance = convert_distance_to_u256(&self.local_address.distance(&addr));
            let _ = self.records_by_distance.remove(&distance);
        }

        if let Some((farthest_record, _)) = self.farthest_record.clone() {
            if farthest_record == *k {
                self.farthest_record = self.calculate_farthest();
            }
        }
        proof { self.world.deleted = self.world.deleted.push(*k); }
        assert(self.wf_addr());
        assert(self.wf_idx1());
        assert(self.wf_idx2());
        assert(self.wf_far());
    }
}
} // verus!
fn main() {}
