#![feature(allocator_api)]
use vstd::prelude::*;
use std::collections::BTreeSet;
verus! {
// =================== PRELUDE (stand-ins, assumed contracts) ===================
pub open spec fn nat_cmp(a: nat, b: nat) -> core::cmp::Ordering {
    if a < b { core::cmp::Ordering::Less } else if a == b { core::cmp::Ordering::Equal } else { core::cmp::Ordering::Greater }
}

#[verifier::external_body]
#[derive(Clone, Copy, PartialEq, Eq)]
pub struct PublicKey { b: [u8; 48] }
impl vstd::std_specs::cmp::PartialEqSpecImpl for PublicKey {
    open spec fn obeys_eq_spec() -> bool { true }
    open spec fn eq_spec(&self, other: &PublicKey) -> bool { *self == *other }
}
#[verifier::external_body]
#[derive(PartialEq, Eq)]
pub struct Signature { b: [u8; 96] }
impl Clone for Signature { #[verifier::external_body] fn clone(&self) -> (r: Signature) ensures r == *self { unimplemented!() } }
#[verifier::external_body]
#[derive(Clone, Copy, PartialEq, Eq)]
pub struct XorName { b: [u8; 32] }

pub uninterp spec fn sig_ok(pk: PublicKey, msg: Seq<u8>, sig: Signature) -> bool;   // A-SIG
impl PublicKey {
    #[verifier::external_body]
    pub fn verify(&self, sig: &Signature, msg: &[u8]) -> (r: bool) ensures r == sig_ok(*self, msg@, *sig) { unimplemented!() }
}

#[derive(Clone, Copy, PartialEq, Eq)]
pub struct RegisterAddress { pub meta: XorName, pub owner: PublicKey }
impl vstd::std_specs::cmp::PartialEqSpecImpl for RegisterAddress {
    open spec fn obeys_eq_spec() -> bool { true }
    open spec fn eq_spec(&self, other: &RegisterAddress) -> bool { *self == *other }
}

#[verifier::external_body]
#[derive(PartialEq, Eq)]
pub struct Permissions { p: () }
impl Clone for Permissions { #[verifier::external_body] fn clone(&self) -> (r: Permissions) ensures r == *self { unimplemented!() } }
impl vstd::std_specs::cmp::PartialEqSpecImpl for Permissions {
    open spec fn obeys_eq_spec() -> bool { true }
    open spec fn eq_spec(&self, other: &Permissions) -> bool { *self == *other }
}
impl Permissions {
    pub uninterp spec fn anyone(&self) -> bool;
    pub uninterp spec fn writers(&self) -> Set<PublicKey>;
    // contracts of permissions.rs (verified in the same unit from the real bodies)
    #[verifier::external_body]
    pub fn can_anyone_write(&self) -> (r: bool) ensures r == self.anyone() { unimplemented!() }
    #[verifier::external_body]
    pub fn can_write(&self, user: &PublicKey) -> (r: bool) ensures r == (self.anyone() || self.writers().contains(*user)) { unimplemented!() }
}

pub struct MerkleDagEntry { pub value: Vec<u8>, pub rest: u64 }
pub struct RegisterOp { pub address: RegisterAddress, pub crdt_op: MerkleDagEntry, pub source: PublicKey, pub signature: Signature }
pub uninterp spec fn op_sign_bytes(op: RegisterOp) -> Seq<u8>;
pub uninterp spec fn op_rank(op: RegisterOp) -> nat;   // total order used by BTreeSet
impl vstd::std_specs::cmp::PartialOrdSpecImpl for RegisterOp {
    open spec fn obeys_partial_cmp_spec() -> bool { true }
    open spec fn partial_cmp_spec(&self, other: &RegisterOp) -> Option<core::cmp::Ordering> { Some(nat_cmp(op_rank(*self), op_rank(*other))) }
}
impl vstd::std_specs::cmp::OrdSpecImpl for RegisterOp {
    open spec fn obeys_cmp_spec() -> bool { true }
    open spec fn cmp_spec(&self, other: &RegisterOp) -> core::cmp::Ordering { nat_cmp(op_rank(*self), op_rank(*other)) }
}
impl PartialEq for RegisterOp { #[verifier::external_body] fn eq(&self, o: &RegisterOp) -> (r: bool) { unimplemented!() } }
impl Eq for RegisterOp {}
impl PartialOrd for RegisterOp { #[verifier::external_body] fn partial_cmp(&self, o: &RegisterOp) -> (r: Option<core::cmp::Ordering>) { unimplemented!() } }
impl Ord for RegisterOp { #[verifier::external_body] fn cmp(&self, o: &RegisterOp) -> (r: core::cmp::Ordering) { unimplemented!() } }
pub broadcast proof fn op_obeys() ensures #[trigger] vstd::laws_cmp::obeys_cmp::<RegisterOp>() { admit(); }
impl Clone for RegisterOp { #[verifier::external_body] fn clone(&self) -> (r: RegisterOp) ensures r == *self { unimplemented!() } }

pub enum Error {
    TooManyEntries(usize), InvalidSignature, EntryTooBig { size: usize, max: usize },
    AccessDenied(PublicKey), DifferentBaseRegister, SerialisationFailed,
}
pub type Result<T> = core::result::Result<T, Error>;

impl RegisterOp {
    // contract of register_op.rs::verify_signature (verified in the same unit)
    #[verifier::external_body]
    pub fn verify_signature(&self, pk: &PublicKey) -> (r: Result<()>)
        ensures r is Ok <==> sig_ok(*pk, op_sign_bytes(*self), self.signature),
                r is Err ==> r == Err::<(), Error>(Error::InvalidSignature)
    { unimplemented!() }
}

pub struct Register { pub address: RegisterAddress, pub permissions: Permissions }
pub uninterp spec fn reg_bytes(r: Register) -> Option<Seq<u8>>;
impl Register {
    #[verifier::external_body]
    pub fn bytes(&self) -> (r: Result<Vec<u8>>)
        ensures (r matches Ok(v) ==> reg_bytes(*self) == Some(v@)), (r is Err ==> reg_bytes(*self) is None && r == Err::<Vec<u8>, Error>(Error::SerialisationFailed))
    { unimplemented!() }
    pub fn address(&self) -> (r: &RegisterAddress) ensures *r == self.address { &self.address }
    pub fn owner(&self) -> (r: PublicKey) ensures r == self.address.owner { self.address.owner }
}

// R8 stand-ins (std semantics)
#[verifier::external_body]
pub fn btreeset_to_vec(s: &BTreeSet<RegisterOp>) -> (v: Vec<RegisterOp>)
    ensures v@.to_set() == s@, v@.no_duplicates()
{ unimplemented!() }
#[verifier::external_body]
pub fn btreeset_extend_set(a: &mut BTreeSet<RegisterOp>, b: BTreeSet<RegisterOp>)
    ensures final(a)@ == old(a)@.union(b@)
{ unimplemented!() }

pub const MAX_REG_ENTRY_SIZE: usize = 1024;
pub const MAX_REG_NUM_ENTRIES: u16 = 1024;

pub struct SignedRegister { pub register: Register, pub signature: Signature, pub ops: BTreeSet<RegisterOp> }

// =================== SPEC (from the property statement) ===================
pub open spec fn permitted(reg: Register, op: RegisterOp) -> bool {
    reg.permissions.anyone() || (reg.permissions.writers().contains(op.source) && sig_ok(op.source, op_sign_bytes(op), op.signature))
}
pub open spec fn op_ok(reg: Register, op: RegisterOp) -> bool { permitted(reg, op) && op.crdt_op.value@.len() <= 1024 }
pub open spec fn base_ok(sr: SignedRegister) -> bool {
    reg_bytes(sr.register) matches Some(b) && sig_ok(sr.register.address.owner, b, sr.signature)
}
pub open spec fn valid(sr: SignedRegister) -> bool {
    sr.ops@.len() <= 1024 && base_ok(sr) && forall|op: RegisterOp| #[trigger] sr.ops@.contains(op) ==> op_ok(sr.register, op)
}

impl Register {
    // ---- pasted real bodies ----
    pub fn check_user_permissions(&self, requester: PublicKey) -> (res: Result<()>)
        ensures res is Ok <==> (self.permissions.anyone() || self.permissions.writers().contains(requester)),
    {
        if self.permissions.can_write(&requester) {
            Ok(())
        } else {
            Err(Error::AccessDenied(requester))
        }
    }
    pub fn check_register_op(&self, op: &RegisterOp) -> (res: Result<()>)
        ensures res is Ok <==> permitted(*self, *op),
    {
        if self.permissions.can_anyone_write() {
            return Ok(()); // anyone can write, so no need to check the signature
        }
        self.check_user_permissions(op.source)?;
        op.verify_signature(&op.source)
    }
    fn verify_is_mergeable(&self, other: &Self) -> (res: Result<()>)
        ensures res is Ok <==> (self.address == other.address && self.permissions == other.permissions),
    {
        if self.address() != other.address() || self.permissions != other.permissions {
            return Err(Error::DifferentBaseRegister);
        }
        Ok(())
    }
}

impl SignedRegister {
    pub fn verify(&self) -> (res: Result<()>)
        
        ensures res is Ok <==> valid(*self),
    {
        broadcast use op_obeys;
        let reg_size = self.ops.len();
        if reg_size >= MAX_REG_NUM_ENTRIES as usize {
            return Err(Error::TooManyEntries(reg_size));
        }

        let bytes = self.register.bytes()?;
        if !self
            .register
            .owner()
            .verify(&self.signature, bytes.as_slice())
        {
            return Err(Error::InvalidSignature);
        }

        let __v = btreeset_to_vec(&self.ops);
        for op in __it: __v.iter()
            invariant
                __v@.to_set() == self.ops@,
                forall|i: int| 0 <= i < __it.index() ==> op_ok(self.register, #[trigger] __v@[i]),
                base_ok(*self), self.ops@.len() <= 1024,
        {
            proof { assert(__v@[__it.index() as int] == *op); assert(__v@.contains(*op)); assert(__v@.to_set().contains(*op)); assert(self.ops@.contains(*op)); }
            self.register.check_register_op(op)?;
            let size = op.crdt_op.value.len();
            if size > MAX_REG_ENTRY_SIZE {
                return Err(Error::EntryTooBig {
                    size,
                    max: MAX_REG_ENTRY_SIZE,
                });
            }
        }
        proof {
            assert forall|op: RegisterOp| self.ops@.contains(op) implies op_ok(self.register, op) by {
                assert(__v@.to_set().contains(op));
                let i = choose|i: int| 0 <= i < __v@.len() && __v@[i] == op;
                assert(op_ok(self.register, __v@[i]));
            }
        }
        Ok(())
    }

    pub fn merge(&mut self, other: &Self) -> (res: Result<()>)
        ensures
            res is Ok ==> final(self).ops@ == old(self).ops@.union(other.ops@) && final(self).register == old(self).register && final(self).signature == old(self).signature
                && old(self).register.address == other.register.address && old(self).register.permissions == other.register.permissions,
            res is Err ==> *final(self) == *old(self),
    {
        self.register.verify_is_mergeable(&other.register)?;
        btreeset_extend_set(&mut self.ops, other.ops.clone());
        Ok(())
    }

    pub fn add_op(&mut self, op: RegisterOp) -> (res: Result<()>)
        
        ensures
            res is Ok ==> old(self).ops@.len() < 1024 && op_ok(old(self).register, op) && final(self).ops@ == old(self).ops@.insert(op)
                && final(self).register == old(self).register && final(self).signature == old(self).signature,
            res is Err ==> *final(self) == *old(self),
    {
        broadcast use op_obeys;
        let reg_size = self.ops.len();
        if reg_size >= MAX_REG_NUM_ENTRIES as usize {
            return Err(Error::TooManyEntries(reg_size));
        }

        let size = op.crdt_op.value.len();
        if size > MAX_REG_ENTRY_SIZE {
            return Err(Error::EntryTooBig {
                size,
                max: MAX_REG_ENTRY_SIZE,
            });
        }

        self.register.check_register_op(&op)?;
        self.ops.insert(op);
        Ok(())
    }
}

// closure obligation from the property: a state reached by an accepted op is valid everywhere
proof fn closure_add_op(pre: SignedRegister, post: SignedRegister, op: RegisterOp)
    requires valid(pre), pre.ops@.finite(), pre.ops@.len() < 1024, op_ok(pre.register, op),
        post.ops@ == pre.ops@.insert(op), post.register == pre.register, post.signature == pre.signature,
    ensures valid(post),
{
}
} // verus!
fn main() {}
