use vstd::prelude::*;
verus! {
fn t(v: &Vec<u64>) {
    for op in it: v.iter()
    {
        assert(it.seq().len() == v@.len());        // A1
        assert(*it.seq()[it.index() as int] == *op);  // A2
        assert(*it.seq()[it.index() as int] == v@[it.index() as int]); // A3
        assert(it.index() < v@.len()); // A4
    }
}
fn t2(v: &Vec<u64>) {
    for op in it: v
    {
        assert(it.seq().len() == v@.len());        // B1
        assert(*it.seq()[it.index() as int] == *op);  // B2
        assert(*it.seq()[it.index() as int] == v@[it.index() as int]); // B3
    }
}
} // verus!
fn main() {}
