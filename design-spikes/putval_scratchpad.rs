use vstd::prelude::*;
verus! {

#[verifier::external_body]
#[derive(PartialEq, Eq)]
pub struct RecordKey { inner: Vec<u8> }
impl Clone for RecordKey {
    #[verifier::external_body]
    fn clone(&self) -> (r: RecordKey) ensures r == *self { unimplemented!() }
}
pub assume_specification[ <RecordKey as PartialEq>::eq ](a: &RecordKey, b: &RecordKey) -> (r: bool)
    ensures r == (*a == *b);

#[verifier::external_body]
pub struct ScratchpadAddress { _p: () }
#[verifier::external_body]
pub struct Scratchpad { _p: () }
#[verifier::external_body]
pub struct Record { _p: () }

pub enum NetworkAddress { ScratchpadAddress(ScratchpadAddress), Other }

pub enum ProtoError { RecordParsingFailed }
pub enum NetError { Chan }
pub enum Error {
    RecordKeyMismatch,
    IgnoringOutdatedScratchpadPut,
    InvalidScratchpadSignature,
    Protocol(ProtoError),
    Network(NetError),
}
impl vstd::std_specs::convert::FromSpecImpl<ProtoError> for Error {
    open spec fn obeys_from_spec() -> bool { true }
    open spec fn from_spec(e: ProtoError) -> Error { Error::Protocol(e) }
}
impl From<ProtoError> for Error { fn from(e: ProtoError) -> (r: Error) { Error::Protocol(e) } }
impl vstd::std_specs::convert::FromSpecImpl<NetError> for Error {
    open spec fn obeys_from_spec() -> bool { true }
    open spec fn from_spec(e: NetError) -> Error { Error::Network(e) }
}
impl From<NetError> for Error { fn from(e: NetError) -> (r: Error) { Error::Network(e) } }

pub uninterp spec fn key_of_addr(a: ScratchpadAddress) -> RecordKey;
impl NetworkAddress {
    #[verifier::external_body]
    pub fn to_record_key(&self) -> (r: RecordKey)
        ensures self matches NetworkAddress::ScratchpadAddress(a) ==> r == key_of_addr(*a)
    { unimplemented!() }
}
impl Scratchpad {
    pub uninterp spec fn sp_addr(&self) -> ScratchpadAddress;
    pub uninterp spec fn sp_count(&self) -> u64;
    pub uninterp spec fn sp_valid(&self) -> bool;
    #[verifier::external_body]
    pub fn address(&self) -> (r: &ScratchpadAddress) ensures *r == self.sp_addr() { unimplemented!() }
    #[verifier::external_body]
    pub fn count(&self) -> (r: u64) ensures r == self.sp_count() { unimplemented!() }
    #[verifier::external_body]
    pub fn is_valid(&self) -> (r: bool) ensures r == self.sp_valid() { unimplemented!() }
}
impl Clone for ScratchpadAddress { #[verifier::external_body] fn clone(&self) -> (r: Self) ensures r == *self { unimplemented!() } }
impl Copy for ScratchpadAddress {}

pub uninterp spec fn decode_pad(r: Record) -> Option<Scratchpad>;
#[verifier::external_body]
pub fn try_deserialize_record_scratchpad(r: &Record) -> (res: Result<Scratchpad, ProtoError>)
    ensures res is Ok ==> decode_pad(*r) == Some(res->Ok_0), res is Err ==> decode_pad(*r) is None
{ unimplemented!() }

// ghost world: local store as map key -> record ; effects log
pub struct Net { pub ghost store: Map<RecordKey, Record>, pub ghost puts: Seq<(RecordKey, Scratchpad)> }
impl Net {
    #[verifier::external_body]
    pub fn get_local_record(&self, k: &RecordKey) -> (r: Result<Option<Record>, NetError>)
        ensures r matches Ok(o) ==> (o matches Some(rec) ==> self.store.contains_key(*k) && self.store[*k] == rec) && (o is None ==> !self.store.contains_key(*k))
    { unimplemented!() }
    #[verifier::external_body]
    pub fn put_local_scratchpad(&mut self, k: RecordKey, s: &Scratchpad)
        ensures final(self).store == old(self).store, final(self).puts == old(self).puts.push((k, *s))
    { unimplemented!() }
}

pub fn validate_and_store_scratchpad_record(
    net: &mut Net,
    scratchpad: Scratchpad,
    record_key: RecordKey,
    is_client_put: bool,
) -> (res: Result<(), Error>)
    ensures
        // stored (a put happened) only if key matches, signature valid, and counter strictly higher than local
        final(net).puts.len() <= old(net).puts.len() + 1,
        final(net).puts.len() == old(net).puts.len() + 1 ==> {
            &&& res is Ok
            &&& record_key == key_of_addr(scratchpad.sp_addr())
            &&& scratchpad.sp_valid()
            &&& (old(net).store.contains_key(record_key) ==> (decode_pad(old(net).store[record_key]) matches Some(l) && l.sp_count() < scratchpad.sp_count()))
            &&& final(net).puts.last() == (record_key, scratchpad)
        },
        res is Ok ==> final(net).puts.len() == old(net).puts.len() + 1,
{
    // owner PK is defined herein, so as long as record key and this match, we're good
    let addr = scratchpad.address();
    let count = scratchpad.count();

    // check if the deserialized value's RegisterAddress matches the record's key
    let scratchpad_key = NetworkAddress::ScratchpadAddress(*addr).to_record_key();
    if scratchpad_key != record_key {
        return Err(Error::RecordKeyMismatch);
    }

    // check if the Scratchpad is present locally that we don't have a newer version
    if let Some(local_pad) = net.get_local_record(&scratchpad_key)? {
        let local_pad = try_deserialize_record_scratchpad(&local_pad)?;
        if local_pad.count() >= scratchpad.count() {
            return Err(Error::IgnoringOutdatedScratchpadPut);
        }
    }

    // ensure data integrity
    if !scratchpad.is_valid() {
        return Err(Error::InvalidScratchpadSignature);
    }

    net.put_local_scratchpad(scratchpad_key.clone(), &scratchpad);
    Ok(())
}
} // verus!
fn main() {}
