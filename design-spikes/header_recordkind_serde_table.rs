use vstd::prelude::*;
verus! {
// stand-in for serde::Serializer / Deserializer (only what header.rs uses)
pub trait Serializer: Sized {
    type Ok;
    type Error;
    spec fn u32_result(self, v: u32, r: Result<Self::Ok, Self::Error>) -> bool;
    fn serialize_u32(self, v: u32) -> (r: Result<Self::Ok, Self::Error>)
        ensures self.u32_result(v, r);
}
pub trait DeError: Sized { fn custom(msg: &str) -> Self; }
pub trait Deserializer: Sized {
    type Error: DeError;
    spec fn u32_value(self) -> Option<u32>;
    fn deserialize_u32(self) -> (r: Result<u32, Self::Error>)
        ensures r matches Ok(v) ==> self.u32_value() == Some(v), r is Err ==> self.u32_value() is None;
}

#[derive(Clone, Copy, PartialEq, Eq)]
pub enum RecordKind { Chunk, ChunkWithPayment, Transaction, TransactionWithPayment, Register, RegisterWithPayment, Scratchpad, ScratchpadWithPayment }

// the fixed wire table (from the property: "the numeric tag of each kind is fixed")
pub open spec fn tag(k: RecordKind) -> u32 {
    match k {
        RecordKind::ChunkWithPayment => 0, RecordKind::Chunk => 1, RecordKind::Transaction => 2, RecordKind::Register => 3,
        RecordKind::RegisterWithPayment => 4, RecordKind::Scratchpad => 5, RecordKind::ScratchpadWithPayment => 6, RecordKind::TransactionWithPayment => 7,
    }
}

impl RecordKind {
    // pasted body of `impl Serialize for RecordKind`
    fn serialize<S>(&self, serializer: S) -> (res: Result<S::Ok, S::Error>)
    where
        S: Serializer,
        ensures serializer.u32_result(tag(*self), res),
    {
        match *self {
            Self::ChunkWithPayment => serializer.serialize_u32(0),
            Self::Chunk => serializer.serialize_u32(1),
            Self::Transaction => serializer.serialize_u32(2),
            Self::Register => serializer.serialize_u32(3),
            Self::RegisterWithPayment => serializer.serialize_u32(4),
            Self::Scratchpad => serializer.serialize_u32(5),
            Self::ScratchpadWithPayment => serializer.serialize_u32(6),
            Self::TransactionWithPayment => serializer.serialize_u32(7),
        }
    }
    // pasted body of `impl Deserialize for RecordKind` (u32::deserialize(d) -> d.deserialize_u32() by path map)
    fn deserialize<D>(deserializer: D) -> (res: Result<Self, D::Error>)
    where
        D: Deserializer,
        ensures
            res matches Ok(k) ==> deserializer.u32_value() == Some(tag(k)),
            res is Err ==> (deserializer.u32_value() matches Some(n) ==> n >= 8),
    {
        let num = deserializer.deserialize_u32()?;
        match num {
            0 => Ok(Self::ChunkWithPayment),
            1 => Ok(Self::Chunk),
            2 => Ok(Self::Transaction),
            3 => Ok(Self::Register),
            4 => Ok(Self::RegisterWithPayment),
            5 => Ok(Self::Scratchpad),
            6 => Ok(Self::ScratchpadWithPayment),
            7 => Ok(Self::TransactionWithPayment),
            _ => Err(D::Error::custom(
                "Unexpected integer for RecordKind variant",
            )),
        }
    }
}
proof fn tags_injective_and_small(a: RecordKind, b: RecordKind)
    ensures tag(a) == tag(b) ==> a == b, tag(a) < 128,
{}
}
fn main() {}
