use vstd::prelude::*;
verus! {
// ---------- PRELUDE ----------
#[verifier::external_body] #[derive(Clone, Copy)] pub struct PeerId { p: [u8; 4] }
impl vstd::std_specs::cmp::PartialEqSpecImpl for PeerId {
    open spec fn obeys_eq_spec() -> bool { true }
    open spec fn eq_spec(&self, other: &PeerId) -> bool { *self == *other }
}
impl PartialEq for PeerId { #[verifier::external_body] fn eq(&self, o: &PeerId) -> (r: bool) { unimplemented!() } }
#[verifier::external_body] pub struct PublicKey { p: () }
impl Clone for PublicKey { #[verifier::external_body] fn clone(&self) -> (r: PublicKey) ensures r == *self { unimplemented!() } }
#[verifier::external_body] pub struct DecodeError { p: () }
#[verifier::external_body] pub struct ParseError { p: () }
pub uninterp spec fn decode_pk(b: Seq<u8>) -> Option<PublicKey>;
pub uninterp spec fn peer_of(pk: PublicKey) -> PeerId;
pub uninterp spec fn sig_ok(pk: PublicKey, msg: Seq<u8>, sig: Seq<u8>) -> bool;
impl PublicKey {
    #[verifier::external_body]
    pub fn try_decode_protobuf(b: &Vec<u8>) -> (r: Result<PublicKey, DecodeError>)
        ensures r matches Ok(pk) ==> decode_pk(b@) == Some(pk), r is Err ==> decode_pk(b@) is None { unimplemented!() }
    #[verifier::external_body]
    pub fn verify(&self, msg: &Vec<u8>, sig: &Vec<u8>) -> (r: bool) ensures r == sig_ok(*self, msg@, sig@) { unimplemented!() }
}
impl PeerId {
    #[verifier::external_body]
    pub fn from(pk: PublicKey) -> (r: PeerId) ensures r == peer_of(pk) { unimplemented!() }
}
pub struct EncodedPeerId(pub Vec<u8>);
pub uninterp spec fn decode_peer(b: Seq<u8>) -> Option<PeerId>;
impl EncodedPeerId {
    // contract of data_payments.rs::EncodedPeerId::to_peer_id (one-liner over PeerId::from_bytes)
    #[verifier::external_body]
    pub fn to_peer_id(&self) -> (r: Result<PeerId, ParseError>)
        ensures r matches Ok(p) ==> decode_peer(self.0@) == Some(p), r is Err ==> decode_peer(self.0@) is None { unimplemented!() }
}

#[verifier::external_body] #[derive(Clone, Copy)] pub struct SystemTime { p: () }
pub uninterp spec fn t_nanos(t: SystemTime) -> int;     // nanoseconds since the epoch
pub uninterp spec fn clock_now() -> SystemTime;         // the instant `now()` returns in this call
#[verifier::external_body] pub struct Duration { p: () }
pub uninterp spec fn d_nanos(d: Duration) -> int;
#[verifier::external_body] pub struct SystemTimeError { p: () }
impl SystemTime {
    #[verifier::external_body] pub fn now() -> (r: SystemTime) ensures r == clock_now() { unimplemented!() }
    #[verifier::external_body]
    pub fn duration_since(&self, earlier: SystemTime) -> (r: Result<Duration, SystemTimeError>)
        ensures r matches Ok(d) ==> t_nanos(*self) >= t_nanos(earlier) && d_nanos(d) == t_nanos(*self) - t_nanos(earlier),
                r is Err ==> t_nanos(*self) < t_nanos(earlier) { unimplemented!() }
}
impl Duration {
    #[verifier::external_body] pub fn as_secs(&self) -> (r: u64) requires d_nanos(*self) >= 0 ensures r == d_nanos(*self) / 1_000_000_000 { unimplemented!() }
}
pub broadcast proof fn dur_nonneg_small(d: Duration) ensures 0 <= #[trigger] d_nanos(d) < 0x7fff_ffff_ffff_ffff * 1_000_000_000 { admit(); }

pub struct PaymentQuote { pub pub_key: Vec<u8>, pub signature: Vec<u8>, pub timestamp: SystemTime, pub rest: u64 }
pub uninterp spec fn sign_bytes(q: PaymentQuote) -> Seq<u8>;
pub const QUOTE_EXPIRATION_SECS: u64 = 3600;

pub struct ProofOfPayment { pub peer_quotes: Vec<(EncodedPeerId, PaymentQuote)> }

// ---------- SPEC (from the property) ----------
pub open spec fn signed_by(q: PaymentQuote, claimed: PeerId) -> bool {
    decode_pk(q.pub_key@) matches Some(pk) && peer_of(pk) == claimed && sig_ok(pk, sign_bytes(q), q.signature@)
}
pub open spec fn expired_at(q: PaymentQuote, now: SystemTime) -> bool {
    t_nanos(q.timestamp) > t_nanos(now) || (t_nanos(now) - t_nanos(q.timestamp)) / 1_000_000_000 > 3600
}
pub open spec fn is_payee(p: ProofOfPayment, peer: PeerId) -> bool {
    exists|i: int| 0 <= i < p.peer_quotes@.len() && decode_peer(#[trigger] p.peer_quotes@[i].0.0@) == Some(peer)
}
pub open spec fn all_signed(p: ProofOfPayment) -> bool {
    forall|i: int| 0 <= i < p.peer_quotes@.len() ==>
        (decode_peer(#[trigger] p.peer_quotes@[i].0.0@) matches Some(c) && signed_by(p.peer_quotes@[i].1, c))
}

impl PaymentQuote {
    #[verifier::external_body]
    pub fn bytes_for_sig(&self) -> (r: Vec<u8>) ensures r@ == sign_bytes(*self) { unimplemented!() }

    // pasted body
    pub fn check_is_signed_by_claimed_peer(&self, claimed_peer: PeerId) -> (res: bool)
        ensures res == signed_by(*self, claimed_peer),
    {
        let pub_key = if let Ok(pub_key) = PublicKey::try_decode_protobuf(&self.pub_key) {
            pub_key
        } else {
            return false;
        };

        let self_peer_id = PeerId::from(pub_key.clone());

        if self_peer_id != claimed_peer {
            return false;
        }

        let bytes = self.bytes_for_sig();

        if !pub_key.verify(&bytes, &self.signature) {
            return false;
        }

        true
    }

    // pasted body
    pub fn has_expired(&self) -> (res: bool)
        ensures res == expired_at(*self, clock_now()),
    {
        broadcast use dur_nonneg_small;
        let now = SystemTime::now();

        let dur_s = match now.duration_since(self.timestamp) {
            Ok(dur) => dur.as_secs(),
            Err(_) => return true,
        };
        dur_s > QUOTE_EXPIRATION_SECS
    }
}

impl ProofOfPayment {
    // contract of payees() (its body goes through R8 filter_map desugaring in the real unit)
    #[verifier::external_body]
    pub fn payees(&self) -> (r: Vec<PeerId>)
        ensures forall|p: PeerId| r@.contains(p) <==> is_payee(*self, p)
    { unimplemented!() }

    // pasted body; `self.payees().contains(&peer_id)` via R8 `contains` stand-in
    pub fn verify_for(&self, peer_id: PeerId) -> (res: bool)
        ensures res == (is_payee(*self, peer_id) && all_signed(*self)),
    {
        // make sure I am in the list of payees
        if !vec_contains(&self.payees(), &peer_id) {
            return false;
        }

        // verify all signatures
        for (encoded_peer_id, quote) in __it: self.peer_quotes.iter()
            invariant
                is_payee(*self, peer_id),
                forall|i: int| 0 <= i < __it.index() ==>
                    (decode_peer(#[trigger] self.peer_quotes@[i].0.0@) matches Some(c) && signed_by(self.peer_quotes@[i].1, c)),
        {
            proof { assert(self.peer_quotes@[__it.index() as int].0 == *encoded_peer_id); assert(self.peer_quotes@[__it.index() as int].1 == *quote); }
            let peer_id = match encoded_peer_id.to_peer_id() {
                Ok(peer_id) => peer_id,
                Err(e) => {
                    return false;
                }
            };
            if !quote.check_is_signed_by_claimed_peer(peer_id) {
                return false;
            }
        }
        true
    }
}
#[verifier::external_body]
pub fn vec_contains(v: &Vec<PeerId>, x: &PeerId) -> (r: bool) ensures r == v@.contains(*x) { unimplemented!() }
}
fn main() {}
