use vstd::prelude::*;
use vstd::arithmetic::power2::pow2;
verus! {
// ---------- PRELUDE: ruint::Uint<256,4> as opaque value with real operator semantics (A-ARITH) ----------
#[verifier::external_body] #[derive(Clone, Copy)] pub struct Amount { l: [u64; 4] }
pub uninterp spec fn aval(a: Amount) -> nat;
pub uninterp spec fn of_nat(n: nat) -> Amount;
pub broadcast proof fn aval_range(a: Amount) ensures #[trigger] aval(a) < pow2(256) { admit(); }
pub broadcast proof fn aval_of_nat(n: nat) ensures n < pow2(256) ==> aval(#[trigger] of_nat(n)) == n { admit(); }
pub broadcast proof fn of_nat_aval(a: Amount) ensures of_nat(#[trigger] aval(a)) == a { admit(); }

impl vstd::std_specs::ops::DivSpecImpl<Amount> for Amount {
    open spec fn obeys_div_spec() -> bool { true }
    open spec fn div_req(self, rhs: Amount) -> bool { aval(rhs) != 0 }
    open spec fn div_spec(self, rhs: Amount) -> Amount { of_nat(aval(self) / aval(rhs)) }
}
impl core::ops::Div<Amount> for Amount { type Output = Amount; #[verifier::external_body] fn div(self, rhs: Amount) -> Amount { unimplemented!() } }
impl vstd::std_specs::ops::RemSpecImpl<Amount> for Amount {
    open spec fn obeys_rem_spec() -> bool { true }
    open spec fn rem_req(self, rhs: Amount) -> bool { aval(rhs) != 0 }
    open spec fn rem_spec(self, rhs: Amount) -> Amount { of_nat(aval(self) % aval(rhs)) }
}
impl core::ops::Rem<Amount> for Amount { type Output = Amount; #[verifier::external_body] fn rem(self, rhs: Amount) -> Amount { unimplemented!() } }
// ruint: `+` is wrapping_add
impl vstd::std_specs::ops::AddSpecImpl<Amount> for Amount {
    open spec fn obeys_add_spec() -> bool { true }
    open spec fn add_req(self, rhs: Amount) -> bool { true }
    open spec fn add_spec(self, rhs: Amount) -> Amount { of_nat((aval(self) + aval(rhs)) % pow2(256)) }
}
impl core::ops::Add<Amount> for Amount { type Output = Amount; #[verifier::external_body] fn add(self, rhs: Amount) -> Amount { unimplemented!() } }
impl Amount {
    #[verifier::external_body]
    pub fn from(v: u64) -> (r: Amount) ensures aval(r) == v { unimplemented!() }
    #[verifier::external_body]
    pub fn checked_add(self, rhs: Amount) -> (r: Option<Amount>)
        ensures aval(self) + aval(rhs) < pow2(256) ==> r == Some(of_nat(aval(self) + aval(rhs))), aval(self) + aval(rhs) >= pow2(256) ==> r is None { unimplemented!() }
}

// ---------- std::fmt stand-ins (R4b) ----------
pub uninterp spec fn dec(n: nat) -> Seq<char>;
pub open spec fn zeros(k: nat) -> Seq<char> { Seq::new(k, |i: int| '0') }
pub open spec fn zpad(s: Seq<char>, w: nat) -> Seq<char> { if s.len() >= w { s } else { zeros((w - s.len()) as nat) + s } }
pub struct Formatter { pub ghost out: Seq<char> }
#[verifier::external_body] pub struct FmtError { p: () }
pub type FmtResult = core::result::Result<(), FmtError>;
#[verifier::external_body]
pub fn fmt_disp(f: &mut Formatter, x: &Amount) -> (r: FmtResult) ensures r is Ok ==> final(f).out == old(f).out + dec(aval(*x)) { unimplemented!() }
#[verifier::external_body]
pub fn fmt_lit(f: &mut Formatter, s: &str) -> (r: FmtResult) ensures r is Ok ==> final(f).out == old(f).out + s@ { unimplemented!() }
#[verifier::external_body]
pub fn fmt_disp_pad0(f: &mut Formatter, x: &Amount, w: usize) -> (r: FmtResult) ensures r is Ok ==> final(f).out == old(f).out + zpad(dec(aval(*x)), w as nat) { unimplemented!() }

pub const TOKEN_TO_RAW_CONVERSION: u64 = 1_000_000_000_000_000_000;
pub struct AttoTokens(pub Amount);

// ---------- SPEC from the property: true value in whole tokens with 18 fractional digits ----------
pub open spec fn display_spec(v: nat) -> Seq<char> {
    dec(v / 1_000_000_000_000_000_000) + "."@ + zpad(dec(v % 1_000_000_000_000_000_000), 18)
}

impl AttoTokens {
    // pasted body of `impl Display for AttoTokens`, write! translated piecewise (R4b): "{unit}.{remainder:09}"
    fn fmt(&self, formatter: &mut Formatter) -> (res: FmtResult)
        ensures res is Ok ==> final(formatter).out == old(formatter).out + display_spec(aval(self.0)),
    {
        broadcast use aval_range, aval_of_nat;
        let unit = self.0 / Amount::from(TOKEN_TO_RAW_CONVERSION);
        let remainder = self.0 % Amount::from(TOKEN_TO_RAW_CONVERSION);
        proof {
            assert(aval(self.0) / 1_000_000_000_000_000_000 <= aval(self.0)) by(nonlinear_arith);
            assert(aval(self.0) % 1_000_000_000_000_000_000 < pow2(256)) by(nonlinear_arith) requires aval(self.0) < pow2(256);
        }
        fmt_disp(formatter, &unit)?; fmt_lit(formatter, ".")?; fmt_disp_pad0(formatter, &remainder, 9)
    }

    // arithmetic fragment of from_str (R10): after both parses; `converted_units` already passed checked_mul
    fn from_str_tail(converted_units: Amount, remainder: Amount) -> (res: Result<AttoTokens, ()>)
        ensures
            res matches Ok(t) ==> aval(t.0) == aval(converted_units) + aval(remainder),   // exact, never wrapped
    {
        broadcast use aval_range, aval_of_nat;
        Ok(Self(converted_units + remainder))
    }
}
}
fn main() {}
