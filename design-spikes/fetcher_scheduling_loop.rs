use vstd::prelude::*;
use std::collections::HashMap;
verus! {
#[verifier::external_body]
#[derive(PartialEq, Eq, Hash)]
pub struct Key { inner: Vec<u8> }
impl Clone for Key {
    #[verifier::external_body]
    fn clone(&self) -> (r: Key) ensures r == *self { unimplemented!() }
}
pub broadcast proof fn key_obeys()
  ensures #[trigger] vstd::std_specs::hash::obeys_key_model::<(Key, u8)>()
{ admit(); }

pub const MAX_PARALLEL_FETCH: usize = 20;

fn sched(on_going: &mut HashMap<(Key, u8), (u32, u64)>, sorted: Vec<(&(Key, u8, u32), &u64)>, now: u64) -> (out: Vec<(u32, Key, u8)>)
    requires now < 1000,
    ensures
        final(on_going)@.len() <= if old(on_going)@.len() > MAX_PARALLEL_FETCH { old(on_going)@.len() } else { MAX_PARALLEL_FETCH as nat },
        forall|i: int| 0 <= i < out.len() ==> !old(on_going)@.contains_key((#[trigger] out[i].1, out[i].2)),
        forall|i: int, j: int| 0 <= i < j < out@.len() ==> (out@[i].1, out@[i].2) != (out@[j].1, out@[j].2),
{
    broadcast use key_obeys;
    let mut data_to_fetch: Vec<(u32, Key, u8)> = Vec::new();
    let ghost og0 = on_going@;
    for ((key, t, holder), _) in it: sorted
        invariant

            og0.dom().subset_of(on_going@.dom()),
            on_going@.len() <= (if og0.len() > MAX_PARALLEL_FETCH { og0.len() } else { MAX_PARALLEL_FETCH as nat }),
            forall|i: int| 0 <= i < data_to_fetch@.len() ==> !og0.contains_key((#[trigger] data_to_fetch@[i].1, data_to_fetch@[i].2)),
            forall|i: int| 0 <= i < data_to_fetch@.len() ==> on_going@.contains_key((#[trigger] data_to_fetch@[i].1, data_to_fetch@[i].2)),
            forall|i: int, j: int| 0 <= i < j < data_to_fetch@.len() ==> (data_to_fetch@[i].1, data_to_fetch@[i].2) != (data_to_fetch@[j].1, data_to_fetch@[j].2),
            now < 1000,
    {
        broadcast use key_obeys;
        if on_going.len() < MAX_PARALLEL_FETCH
            && !on_going.contains_key(&(key.clone(), t.clone()))
        {
            let ghost og1 = on_going@;
            let ghost d1 = data_to_fetch@;
            data_to_fetch.push((*holder, key.clone(), t.clone()));
            let _ = on_going.insert(
                (key.clone(), t.clone()),
                (*holder, now + 20),
            );
            assert(on_going@ == og1.insert((*key, *t), (*holder, (now + 20) as u64)));
            assert(data_to_fetch@ == d1.push((*holder, *key, *t)));
            assert(!og1.contains_key((*key, *t)));
            assert(on_going@.len() == og1.len() + 1);
        }

        // break out the loop early if we can do no more now
        if on_going.len() >= MAX_PARALLEL_FETCH {
            break;
        }
    }
    data_to_fetch
}
} // verus!
fn main() {}
